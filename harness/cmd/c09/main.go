// C09 — comments and layout never change what a program means.
package main

import (
	"encoding/json"
	"fmt"
	"math/rand"
	"strings"
	"time"

	"verif/harness/fw"
	"verif/harness/gen"
	"verif/harness/lintutil"
	"verif/harness/render"
	"verif/harness/tsim"
)

type ccase struct {
	Seed   int64 `json:"seed"`
	N      int   `json:"n"`
	Single bool  `json:"single,omitempty"`
	Multi  int   `json:"multi"`
	Sim    bool  `json:"sim,omitempty"`
}

func main() {
	fw.Main(&fw.Prop{
		ID:    "C09",
		Level: "exploration",
		Rule: "metamorphic pairs (P, D(P)): P from the grammar-directed generator (lint half: type-blind programs with many diagnostics) and from the typed generator (simulator half: executable core-language programs); " +
			"D inserts only ordinary comments (#, //, /* */, /** **/ whose text cannot be read as an annotation) and whitespace: every single gap between two tokens decorated alone with each style (small programs, exhaustive per program), random multi-gap decorations, " +
			"whitespace-only layouts (none where the lexer needs none, tabs, CRLF, blank lines). Lint half: multisets of (rule, severity, message with digits masked, declaration, statement ordinal, token offset) must be equal. " +
			"Simulator half: the sequence of log lines, the per-statement snapshots of every pooled variable (debugger snapshot monitor) and the reported error must be equal. " +
			"Second hand-written family: ordinary comments / blank lines above, below and around a scope annotation (full VCL and statement-only snippet files, three comment markers, multi-line block comments); one comment at every gap of function-call statements with identifier arguments (header.set/unset/filter/filter_except, std.collect, call with arguments, table/ACL arguments) served through ServeHTTP; comments, blank lines, CRLF and a missing final line break at the top and bottom of a module included in a subroutine and at the root (simulator and linter); twelve #FASTLY macro look-alikes with a scoped snippet in the context. " +
			"non-trivial = a pair whose decoration changed the token stream seen by the parser (>=1 comment or different line structure) and whose P has >=1 diagnostic (lint) or executes >=3 statements (sim); distinct by text of D(P)",
		Assumptions: []string{
			"a decorated variant that no longer parses is a violation when every inserted comment sits at a placeholder docs/parser.md documents (or only whitespace changed); at other gaps it is outside the property and only counted",
			"only deterministic constructs are executed in the simulator half",
		},
		Gen:           genCases,
		Run:           run,
		WorkerInit:    workerInit,
		Timeout:       180 * time.Second,
		MinNonTrivial: 500,
	})
}

func genCases(g *fw.GenCtx) {
	for k := 0; k < g.Pick(2, 20); k++ {
		g.Emit("hand", ccase{Seed: g.Rand.Int63()})
		g.Emit("hand2", ccase{Seed: g.Rand.Int63()})
	}
	// flow half: 16 slices of the token boundaries of each whole program (quick: every 3rd boundary)
	for pi := 0; pi < 1; pi++ {
		for sl := 0; sl < 16; sl++ {
			g.Emit("flow", fcase{Prog: pi, Seed: g.Rand.Int63(), From: sl * 60, To: (sl + 1) * 60, Stride: g.Pick(3, 1)})
		}
	}
	for k := 0; k < g.Pick(60, 1500); k++ {
		g.Emit("lint-single", ccase{Seed: g.Rand.Int63(), N: 3, Single: true})
	}
	for k := 0; k < g.Pick(100, 3000); k++ {
		g.Emit("lint-multi", ccase{Seed: g.Rand.Int63(), N: 10, Multi: g.Pick(5, 40)})
	}
	for k := 0; k < g.Pick(40, 1000); k++ {
		g.Emit("sim-single", ccase{Seed: g.Rand.Int63(), N: 2, Single: true, Sim: true})
	}
	for k := 0; k < g.Pick(80, 2500); k++ {
		g.Emit("sim-multi", ccase{Seed: g.Rand.Int63(), N: 8, Multi: g.Pick(5, 30), Sim: true})
	}
}

func clip(s string, n int) string {
	if len(s) > n {
		return s[:n] + "…"
	}
	return s
}

type locator struct {
	pos   []render.Pos
	p     *gen.Program
	names []string
}

func (l *locator) where(line, col int) string {
	idx := -1
	for i, ps := range l.pos {
		if ps.Line < line || ps.Line == line && ps.Col <= col {
			idx = i
		} else {
			break
		}
	}
	if idx < 0 {
		return "?"
	}
	di := -1
	for i, d := range l.p.Decls {
		if idx >= d[0] && idx < d[1] {
			di = i
		}
	}
	if di < 0 {
		return fmt.Sprintf("tok%d", idx)
	}
	ord, best, bestLen := 0, -1, 1<<30
	for _, s := range l.p.Stmts {
		if s.From >= l.p.Decls[di][0] && s.To <= l.p.Decls[di][1] {
			if idx >= s.From && idx < s.To && s.To-s.From < bestLen {
				best, bestLen = ord, s.To-s.From
			}
			ord++
		}
	}
	return fmt.Sprintf("decl%d#stmt%d+tok%d", di, best, idx-l.p.Decls[di][0])
}

func lintMapped(oc *fw.Outcome, p *gen.Program, pl render.Plan) ([]string, string, string) {
	src, pos := render.RenderPos(p.Toks, pl)
	fw.JournalS(src)
	oc.Evals++
	var res *lintutil.Result
	pn, msg, st := fw.Guard(func() { res = lintutil.Lint(src, nil) })
	if pn {
		return nil, src, "panic:" + fw.PanicKey(st) + " " + msg
	}
	if res.ParseErr != nil {
		return nil, src, "noparse"
	}
	loc := &locator{pos: pos, p: p}
	var out []string
	for _, d := range res.Diags {
		out = append(out, loc.where(d.Line, d.Pos)+"|"+d.NoPos())
	}
	return out, src, ""
}

func slotAt(p *gen.Program, gap int) string {
	if gap < len(p.Toks) {
		return p.Toks[gap].Slot
	}
	return "tail"
}

func styleName(c render.Comment) string {
	switch c.Style {
	case "#":
		return "sharp"
	case "//":
		return "slash"
	}
	return "block"
}

func checkLintPair(oc *fw.Outcome, p *gen.Program, base []string, src0 string, pl render.Plan, what string) {
	cur, src1, status := lintMapped(oc, p, pl)
	switch {
	case status == "noparse":
		// the plain program parses: a comment at a documented placeholder, or different whitespace, must not make it unparseable
		doc := true
		for gap := range pl.Comments {
			if gap < len(p.Toks) && !p.Toks[gap].Doc {
				doc = false
			}
		}
		if doc {
			oc.Violate(what+"/noparse", "the program no longer parses when only comments at documented placeholders / whitespace are inserted",
				map[string]any{"plain": clip(src0, 2500), "decorated": clip(src1, 2500), "plan": pl})
			return
		}
		oc.Tag("decorated-variant-does-not-parse")
		return
	case status != "":
		// crashes of the linter belong to C11; only count them here
		oc.Tag("linter-panic-on-variant")
		return
	}
	if len(pl.Comments) > 0 || strings.Count(src1, "\n") != strings.Count(src0, "\n") {
		if len(base) > 0 {
			oc.NonTrivialS(src1)
		}
	}
	if lintutil.Multiset(cur) != lintutil.Multiset(base) {
		d := lintutil.DiffMultiset(base, cur)
		dir := "disappears"
		if d == "" {
			d = lintutil.DiffMultiset(cur, base)
			dir = "appears"
		}
		parts := strings.SplitN(d, "|", 4)
		rule := "?"
		if len(parts) > 1 {
			rule = parts[1]
			if rule == "" && len(parts) > 3 {
				rule = "msg:" + clip(strings.SplitN(parts[3], " ", 4)[0]+" "+strings.Join(strings.Fields(parts[3])[1:min(3, len(strings.Fields(parts[3])))], " "), 30)
			}
		}
		oc.Violate(what+"/lint:"+rule, fmt.Sprintf("a diagnostic %s when only comments/whitespace are inserted: %s", dir, clip(d, 250)),
			map[string]any{"plain": clip(src0, 2500), "decorated": clip(src1, 2500), "plain_diags": base, "decorated_diags": cur, "plan": pl})
	}
}

func runLint(oc *fw.Outcome, cc ccase) {
	r := rand.New(rand.NewSource(cc.Seed))
	for i := 0; i < cc.N; i++ {
		opts := gen.Opts{MaxDepth: 3, Decls: 2 + r.Intn(4)}
		if cc.Single {
			opts = gen.Opts{MaxDepth: 2, Decls: 1 + r.Intn(2), StmtsPer: 3}
		}
		p := gen.New(r, opts).Program()
		base, src0, status := lintMapped(oc, p, render.Plan{Mode: "canonical"})
		if status == "noparse" {
			// the relation is symmetric (comments may be REMOVED): a program that does not parse must
			// not start to parse because comments were put at documented placeholders
			oc.Tag("base:noparse")
			var docGaps []int
			for i, t := range p.Toks {
				if t.Doc {
					docGaps = append(docGaps, i)
				}
			}
			for k := 0; k < 12 && len(docGaps) > 0; k++ {
				pl := render.Plan{Mode: "canonical", Comments: map[int][]render.Comment{}}
				for n := 1 + r.Intn(6); n > 0; n-- {
					gap := docGaps[r.Intn(len(docGaps))]
					c := render.NewPlainComment(r, n)
					c.Style = "/*"
					pl.Comments[gap] = append(pl.Comments[gap], c)
				}
				_, src1, st := lintMapped(oc, p, pl)
				if st == "" {
					oc.Violate("unparseable-parses-with-comments", "a program that does not parse is accepted once comments are inserted at documented placeholders",
						map[string]any{"plain": clip(src0, 2500), "decorated": clip(src1, 2500), "plan": pl})
					break
				}
			}
			continue
		}
		if status != "" {
			oc.Tag("base:" + strings.SplitN(status, " ", 2)[0])
			continue
		}
		if i == 0 {
			oc.Sample = map[string]any{"program": clip(src0, 1200), "diagnostics": len(base)}
		}
		// whitespace-only layouts
		for _, pl := range []render.Plan{{Mode: "tight"}, {Mode: "random", Seed: r.Int63()}, {Mode: "random", Seed: r.Int63()}} {
			checkLintPair(oc, p, base, src0, pl, "whitespace:"+pl.Mode)
		}
		if cc.Single {
			serial := 0
			for gap := 0; gap <= len(p.Toks); gap++ {
				for _, style := range []string{"#", "//", "/*"} {
					serial++
					c := render.NewPlainComment(r, serial)
					c.Style = style
					pl := render.Plan{Mode: "canonical", Comments: map[int][]render.Comment{gap: {c}}}
					checkLintPair(oc, p, base, src0, pl, slotAt(p, gap)+"/"+styleName(c))
					oc.Tag("slot:" + slotAt(p, gap))
				}
			}
			continue
		}
		for k := 0; k < cc.Multi; k++ {
			pl := render.Plan{Mode: []string{"canonical", "random"}[r.Intn(2)], Seed: r.Int63(), Comments: map[int][]render.Comment{}}
			for n := 1 + r.Intn(10); n > 0; n-- {
				gap := r.Intn(len(p.Toks) + 1)
				pl.Comments[gap] = append(pl.Comments[gap], render.NewPlainComment(r, n))
			}
			// localise by construction: on failure re-test each decorated gap alone
			cur, _, st := lintMapped(oc, p, pl)
			if st == "" && lintutil.Multiset(cur) == lintutil.Multiset(base) {
				oc.NonTrivialS(fmt.Sprint(pl.Seed, len(pl.Comments), src0))
				continue
			}
			if st != "" {
				oc.Tag("decorated-variant-does-not-parse")
				continue
			}
			found := false
			for gap, cs := range pl.Comments {
				one := render.Plan{Mode: "canonical", Comments: map[int][]render.Comment{gap: cs[:1]}}
				c1, _, s1 := lintMapped(oc, p, one)
				if s1 == "" && lintutil.Multiset(c1) != lintutil.Multiset(base) {
					checkLintPair(oc, p, base, src0, one, slotAt(p, gap)+"/"+styleName(cs[0]))
					found = true
					break
				}
			}
			if !found {
				checkLintPair(oc, p, base, src0, pl, "multi")
			}
		}
	}
}

// hand templates: «» marks a documented placeholder; the plain program has none of them filled.
// They cover programs that do NOT parse (the generator only produces parseable ones).
var handTemplates = []string{
	"sub vcl_recv {\n#FASTLY RECV\nswitch «» ( «» req.http.A «» ) «» {\ncase «» \"a\" «» : «»\nbreak «» ;\ncase «» \"a\" «» : «»\nbreak «» ;\n}\nreturn ( lookup ) ;\n}\n",
	"sub vcl_recv {\n#FASTLY RECV\nswitch ( req.http.A ) {\ncase ~ «» \"a\" «» : «»\nbreak ;\ncase ~ «» \"a\" «» :\nbreak ;\ndefault «» : «»\nbreak ;\ndefault «» :\nbreak ;\n}\n}\n",
	"sub vcl_recv {\n#FASTLY RECV\nswitch ( req.http.A ) {\ncase «» \"a\" «» : «»\nfallthrough «» ; «»\n}\n}\n",
	"sub vcl_recv {\n#FASTLY RECV\nswitch ( req.http.A ) { «»\n}\n}\n",
	"sub vcl_recv {\n#FASTLY RECV\nset «» req.http.A «» = «» \"a\" «»\n«» set req.http.B = \"b\" ;\n}\n",
	"sub vcl_recv {\n#FASTLY RECV\nif «» ( «» req.http.A «» ) «» { «» } «» else «» if ( req.http.B ) { } else «» { «» } else { }\n}\n",
	"acl «» a «» { «»\n\"10.0.0.0\" «» / «» 40 «» ; «»\n}\nacl «» a «» { }\n",
	"table «» t «» STRING «» { «»\n\"k\" «» : «» \"v\" «» , «»\n\"k\" «» : «» \"w\" «»\n}\n",
	// duplicate case labels made of concatenated strings: a comment between the operands is no part of the label
	"sub vcl_recv {\n#FASTLY RECV\nswitch (req.http.A) {\ncase «» \"a\" «» \"b\" «» :\nbreak;\ncase \"a\" \"b\":\nbreak;\n}\n}\n",
	"sub vcl_recv {\n#FASTLY RECV\nswitch (req.http.A) {\ncase \"x\" + \"y\":\nbreak;\ncase \"x\" «» + «» \"y\" «» :\nbreak;\n}\n}\n",
	// literals at the edge of their range behind a sign / next to a unit: a comment or a line break between the tokens changes nothing
	"sub vcl_recv {\n#FASTLY RECV\ndeclare local var.i INTEGER;\ndeclare local var.f FLOAT;\nset var.i = «» -«»9223372036854775808 «» ;\nset var.i = -«»0x8000000000000000 «» ;\nset var.f = «» -«»1.5 «» ;\nset var.i = 9223372036854775807 «» ;\nif (var.i == -«»9223372036854775808) { }\n}\n",
	"sub f «» STRING «» { «» return «» \"x\" «» ; «» }\nsub f «» STRING { return \"y\" ; }\nsub vcl_recv {\n#FASTLY RECV\nset req.http.A = f «» ( «» ) «» ;\ncall «» nosuch «» ;\ngoto «» lbl «» ;\n}\n",
}

func runHand(oc *fw.Outcome, cc ccase) {
	r := rand.New(rand.NewSource(cc.Seed))
	lintText := func(src string) ([]string, string) {
		fw.JournalS(src)
		oc.Evals++
		var res *lintutil.Result
		pn, msg, st := fw.Guard(func() { res = lintutil.Lint(src, nil) })
		if pn {
			return nil, "panic:" + fw.PanicKey(st) + " " + msg
		}
		if res.ParseErr != nil {
			return nil, "noparse"
		}
		var out []string
		for _, d := range res.Diags {
			out = append(out, d.NoPos())
		}
		return out, ""
	}
	for ti, tpl := range handTemplates {
		parts := strings.Split(tpl, "«»")
		plain := strings.Join(parts, "")
		base, st0 := lintText(plain)
		oc.Tag("hand-base:" + map[bool]string{true: "parses", false: "does-not-parse"}[st0 == ""])
		if ti == 0 {
			oc.Sample = map[string]any{"template": tpl, "plain_status": st0}
		}
		for gi := 0; gi < len(parts)-1; gi++ {
			for _, style := range []string{"/*", "//", "#"} {
				c := render.NewPlainComment(r, gi+1)
				c.Style = style
				var sb strings.Builder
				for i, pt := range parts {
					sb.WriteString(pt)
					if i == gi {
						sb.WriteString(c.String())
						if style != "/*" {
							sb.WriteString("\n")
						}
					}
				}
				cur, st1 := lintText(sb.String())
				oc.NonTrivialS(sb.String())
				what := fmt.Sprintf("hand%d#%d/%s", ti, gi, styleName(c))
				switch {
				case strings.HasPrefix(st0, "panic") || strings.HasPrefix(st1, "panic"):
					oc.Tag("linter-panic-on-variant")
				case st0 != st1:
					oc.Violate(what+"/parse-status", fmt.Sprintf("plain program: %q, with one comment at a documented placeholder: %q", st0, st1),
						map[string]any{"plain": plain, "decorated": sb.String()})
				case st0 == "" && lintutil.Multiset(cur) != lintutil.Multiset(base):
					d := lintutil.DiffMultiset(base, cur)
					if d == "" {
						d = lintutil.DiffMultiset(cur, base)
					}
					oc.Violate(what+"/lint:"+strings.SplitN(d, "|", 2)[0], "diagnostics differ when one comment is inserted: "+clip(d, 200),
						map[string]any{"plain": plain, "decorated": sb.String(), "plain_diags": base, "decorated_diags": cur})
				}
			}
		}
	}
}

func run(c fw.Case) fw.Outcome {
	var oc fw.Outcome
	var cc ccase
	json.Unmarshal(c.Data, &cc)
	if c.Kind == "hand" {
		runHand(&oc, cc)
		return oc
	}
	if c.Kind == "hand2" {
		runHand2(&oc, cc)
		return oc
	}
	if c.Kind == "flow" {
		var fc fcase
		json.Unmarshal(c.Data, &fc)
		runFlow(&oc, fc)
		return oc
	}
	if cc.Sim {
		tsim.RunC09(&oc, cc.Seed, cc.N, cc.Single, cc.Multi)
		return oc
	}
	runLint(&oc, cc)
	return oc
}
