package main

// Second hand-written family, for places the generators do not reach:
//   annot   - ordinary comments and blank lines next to a scope ANNOTATION (above it, between it and
//             `sub`, both) in a full VCL file and in a statement-only snippet file (linter);
//   callarg - comments at every gap of function-call STATEMENTS whose arguments are identifiers
//             (header.set(req, ...), header.unset, std.collect, ...) and of call statements with
//             arguments (simulator, whole request through ServeHTTP);
//   module  - comments / blank lines / a missing final line break at the top and the bottom of a module
//             that is included inside a subroutine and at the root (simulator and linter).

import (
	"encoding/json"
	"fmt"
	"math/rand"
	"net/http/httptest"
	"strings"

	"github.com/ysugimoto/falco/v2/config"
	"github.com/ysugimoto/falco/v2/interpreter"
	"github.com/ysugimoto/falco/v2/interpreter/context"
	"github.com/ysugimoto/falco/v2/lexer"
	"github.com/ysugimoto/falco/v2/linter"
	lcontext "github.com/ysugimoto/falco/v2/linter/context"
	"github.com/ysugimoto/falco/v2/parser"
	"github.com/ysugimoto/falco/v2/resolver"
	"github.com/ysugimoto/falco/v2/snippet"

	"verif/harness/fw"
	"verif/harness/lintutil"
	"verif/harness/render"
)

// lintAny lints a full VCL file or a statement-only snippet file (ParseVCLOrSnippet), with modules.
func lintAny(src string, mods map[string]string) ([]string, string) {
	var out []string
	status := ""
	pn, msg, st := fw.Guard(func() {
		v, err := parser.New(lexer.NewFromString(src, lexer.WithFile("main.vcl"))).ParseVCLOrSnippet()
		if err != nil {
			status = "noparse"
			return
		}
		l := linter.New(&config.LinterConfig{})
		l.Lint(v, lcontext.New(lcontext.WithResolver(&lintutil.MapResolver{Main: src, Modules: mods, Budget: 100})))
		if l.FatalError != nil {
			status = "fatal"
			return
		}
		for _, e := range l.Errors {
			d := lintutil.Diag{Rule: string(e.Rule), Severity: string(e.Severity), Msg: e.Message}
			out = append(out, d.NoPos())
		}
	})
	if pn {
		return nil, "panic:" + fw.PanicKey(st) + " " + msg
	}
	return out, status
}

func serveWith(res resolver.Resolver, reqs []flowReq, more ...context.Option) ([]any, string) {
	it := interpreter.New(append([]context.Option{context.WithResolver(res)}, more...)...)
	var docs []any
	for _, rq := range reqs {
		rec := httptest.NewRecorder()
		req := httptest.NewRequest(rq.Method, rq.URL, nil)
		for k, v := range rq.Headers {
			req.Header.Set(k, v)
		}
		pn, msg, _ := fw.Guard(func() { it.ServeHTTP(rec, req) })
		if pn {
			return docs, "panic: " + msg
		}
		var doc any
		if err := json.Unmarshal(rec.Body.Bytes(), &doc); err != nil {
			doc = map[string]any{"status": rec.Code, "raw": clip(rec.Body.String(), 300)}
		}
		docs = append(docs, strip(doc))
	}
	return docs, ""
}

type commentLine struct{ style, text string }

func ordinaryComments(r *rand.Rand) []string {
	texts := []string{"Shared helpers", "Adds the debug headers to the response.", "hide the implementation details", "TODO: revisit", "see RFC 7234, section 5.2", "scope of this file is explained below", "recv deliver fetch"}
	t := texts[r.Intn(len(texts))]
	return []string{"// " + t, "# " + t, "/* " + t + " */", "/*\n * " + t + "\n */"}
}

func runHand2(oc *fw.Outcome, cc ccase) {
	r := rand.New(rand.NewSource(cc.Seed))
	// ---- annot ------------------------------------------------------------------------------
	type annotBase struct {
		name, before, annot, after string // after starts with the declaration / first statement
		mods                       map[string]string
	}
	bases := []annotBase{
		{"sub", "", "// @scope: deliver", "sub add_debug_headers {\n  set resp.http.X-Debug = \"1\";\n  set resp.http.X-Status = resp.status;\n  set bereq.http.X = \"1\";\n}\nsub vcl_deliver {\n  #FASTLY DELIVER\n  return (deliver);\n}\n", nil},
		{"sub-sharp", "sub vcl_recv {\n  #FASTLY RECV\n  return (lookup);\n}\n", "# @scope: fetch, deliver", "sub shared {\n  set beresp.ttl = 10s;\n  set resp.http.A = \"1\";\n}\n", nil},
		{"sub-called", "", "/* @scope: recv */", "sub helper {\n  set req.http.H = \"1\";\n  set resp.http.H = \"1\";\n}\nsub vcl_recv {\n  #FASTLY RECV\n  call helper;\n  return (lookup);\n}\n", nil},
		{"snippet-file", "", "# @scope: deliver", "set resp.http.X-Frame-Options = \"DENY\";\nset bereq.http.X-Debug = \"1\";\nunset resp.http.Server;\n", nil},
		{"snippet-file-slash", "", "// @scope: recv", "set req.http.A = \"1\";\nset resp.http.B = \"2\";\n", nil},
		{"module-in-sub", "sub vcl_deliver {\n  #FASTLY DELIVER\n  include \"mod\";\n  return (deliver);\n}\n", "", "", map[string]string{"mod": "set resp.http.M = \"1\";\nset bereq.http.M = \"2\";\n"}},
	}
	for _, b := range bases {
		plain := b.before + b.annot + "\n" + b.after
		if b.annot == "" {
			plain = b.before
		}
		base, st0 := lintAny(plain, b.mods)
		oc.Evals++
		if st0 != "" {
			oc.Inconc = append(oc.Inconc, "hand2/annot: base program "+b.name+" does not lint: "+st0)
			continue
		}
		var variants []struct{ what, src string }
		if b.annot != "" {
			for ci, c := range ordinaryComments(r) {
				style := []string{"slash", "sharp", "block", "block-multiline"}[ci]
				variants = append(variants,
					struct{ what, src string }{"above/" + style, b.before + c + "\n" + b.annot + "\n" + b.after},
					struct{ what, src string }{"below/" + style, b.before + b.annot + "\n" + c + "\n" + b.after},
					struct{ what, src string }{"above+below/" + style, b.before + c + "\n" + b.annot + "\n" + c + "\n" + b.after},
					struct{ what, src string }{"above+blank/" + style, b.before + c + "\n\n" + b.annot + "\n" + b.after},
					struct{ what, src string }{"two-above/" + style, b.before + c + "\n" + c + "\n" + b.annot + "\n" + b.after},
				)
			}
			// ordinary comments that start with an @word which is neither a scope nor a falco annotation
			for di, dc := range []string{"// @author cdn-team", "# @see https://example.com/runbook", "/* @todo tidy this up */", "// @param none", "// @since 2024-01", "// @internal"} {
				variants = append(variants,
					struct{ what, src string }{fmt.Sprintf("doc-tag-above/%d", di), b.before + dc + "\n" + b.annot + "\n" + b.after},
					struct{ what, src string }{fmt.Sprintf("doc-tag-below/%d", di), b.before + b.annot + "\n" + dc + "\n" + b.after},
				)
			}
			variants = append(variants,
				struct{ what, src string }{"blank-lines-above", b.before + "\n\n\n" + b.annot + "\n" + b.after},
				struct{ what, src string }{"crlf", strings.ReplaceAll(plain, "\n", "\r\n")},
				struct{ what, src string }{"indented", b.before + "  " + b.annot + "\n" + b.after},
			)
		}
		for _, v := range variants {
			fw.JournalS(v.src)
			cur, st1 := lintAny(v.src, b.mods)
			oc.Evals++
			key := "hand2:annot/" + b.name + "/" + v.what
			switch {
			case strings.HasPrefix(st1, "panic"):
				oc.Tag("linter-panic-on-variant")
			case st1 != "":
				oc.Violate(key+"/parse-status", "an ordinary comment next to the scope annotation makes the file "+st1, map[string]any{"plain": plain, "decorated": v.src})
			case lintutil.Multiset(cur) != lintutil.Multiset(base):
				d := lintutil.DiffMultiset(base, cur)
				if d == "" {
					d = lintutil.DiffMultiset(cur, base)
				}
				oc.Violate(key+"/lint:"+strings.SplitN(d, "|", 2)[0], "diagnostics differ when ordinary comments / blank lines are put next to the scope annotation: "+clip(d, 200),
					map[string]any{"plain": plain, "decorated": v.src, "plain_diags": base, "decorated_diags": cur})
			default:
				oc.NonTrivialS(v.src)
				oc.Tag("hand2:annot/" + strings.SplitN(v.what, "/", 2)[0])
			}
		}
	}

	// ---- callarg and module (simulator) ------------------------------------------------------------
	tail := "  error 600;\n}\nsub vcl_error {\n  #FASTLY ERROR\n  set obj.status = 200;\n  set obj.http.X-Added = req.http.X-Added;\n  set obj.http.X-Col = req.http.X-Col;\n  synthetic \"ok\";\n  return (deliver);\n}\n"
	helpers := "sub with_args(STRING var.a, INTEGER var.b) {\n  set req.http.X-Args = var.a var.b;\n}\n"
	simTemplates := []struct {
		name, tpl string
		mods      map[string]string
	}{
		{"header.set", "sub vcl_recv {\n  #FASTLY RECV\n  header.set «» ( «» req «» , «» \"X-Added\" «» , «» \"yes\" «» ) «» ;\n  log \"added=\" req.http.X-Added;\n" + tail, nil},
		{"header.unset", "sub vcl_recv {\n  #FASTLY RECV\n  set req.http.X-Added = \"pre\";\n  header.unset «» ( «» req «» , «» \"X-Added\" «» ) «» ;\n  log \"added=\" req.http.X-Added;\n" + tail, nil},
		{"header.filter", "sub vcl_recv {\n  #FASTLY RECV\n  set req.http.X-Added = \"pre\";\n  set req.http.X-Col = \"c\";\n  header.filter «» ( «» req «» , «» \"X-Added\" «» ) «» ;\n  log \"added=\" req.http.X-Added \" col=\" req.http.X-Col;\n" + tail, nil},
		{"header.filter_except", "sub vcl_recv {\n  #FASTLY RECV\n  set req.http.X-Added = \"pre\";\n  set req.http.X-Col = \"c\";\n  header.filter_except «» ( «» req «» , «» \"X-Added\" «» ) «» ;\n  log \"added=\" req.http.X-Added \" col=\" req.http.X-Col;\n" + tail, nil},
		{"std.collect", "sub vcl_recv {\n  #FASTLY RECV\n  add req.http.X-Col = \"a\";\n  add req.http.X-Col = \"b\";\n  std.collect «» ( «» req.http.X-Col «» ) «» ;\n  log \"col=\" req.http.X-Col;\n" + tail, nil},
		{"call-with-args", helpers + "sub vcl_recv {\n  #FASTLY RECV\n  call «» with_args «» ( «» \"a\" «» , «» 7 «» ) «» ;\n  log \"args=\" req.http.X-Args;\n" + tail, nil},
		{"function-in-expression", "sub vcl_recv {\n  #FASTLY RECV\n  set req.http.X-Added = std.tolower «» ( «» \"YES\" «» ) «» ;\n  set req.http.X-Col = if «» ( «» req.http.X-Added == \"yes\" «» , «» \"t\" «» , «» \"f\" «» ) «» ;\n  log \"added=\" req.http.X-Added \" col=\" req.http.X-Col;\n" + tail, nil},
		{"table-acl-args", "table tbl { \"k\": \"v\" }\nacl internal { \"10.0.0.0\"/8; }\nsub vcl_recv {\n  #FASTLY RECV\n  set req.http.X-Added = table.lookup «» ( «» tbl «» , «» \"k\" «» , «» \"d\" «» ) «» ;\n  if «» ( «» client.ip «» ~ «» internal «» ) «» { set req.http.X-Col = \"in\"; }\n  log \"added=\" req.http.X-Added \" col=\" req.http.X-Col;\n" + tail, nil},
	}
	// programs that end in a runtime error which names an identifier of the program: the reported text is part of the
	// process document, a comment next to the identifier is no part of the name
	for _, e := range []struct{ name, decl, stmt string }{
		{"err:return-type", "sub f «» FOO «» {\n  return \"x\";\n}\n", "set req.http.X-Added = f();"},
		{"err:undefined-sub", "", "call «» nosuch «» ;"},
		{"err:undefined-var", "", "set req.http.X-Added = «» nosuch.variable «» ;"},
		{"err:undefined-fn", "", "set req.http.X-Added = nosuch.fn «» ( «» \"a\" «» ) «» ;"},
		{"err:set-undefined", "", "set «» nosuch.variable «» = \"1\";"},
		{"err:table", "", "set req.http.X-Added = table.lookup( «» nosuchtbl «» , \"k\");"},
		{"err:backend", "", "set req.backend = «» nosuchbackend «» ;"},
		{"err:acl", "", "if (client.ip ~ «» nosuchacl «» ) { log \"in\"; }"},
		{"err:type", "", "set req.http.X-Added = std.strlen( «» 5 «» );"},
		{"err:arity", helpers, "call «» with_args «» ( «» \"a\" «» ) «» ;"},
		{"err:local", "", "set «» var.nosuch «» = \"1\";"},
		{"err:unset", "", "unset «» nosuch.variable «» ;"},
	} {
		simTemplates = append(simTemplates, struct {
			name, tpl string
			mods      map[string]string
		}{e.name, e.decl + "sub vcl_recv {\n  #FASTLY RECV\n  " + e.stmt + "\n  log \"after\";\n" + tail, nil})
	}
	reqs := []flowReq{{Method: "GET", URL: "http://localhost/x"}}
	for _, t := range simTemplates {
		parts := strings.Split(t.tpl, "«»")
		plain := strings.Join(parts, "")
		base, st0 := serveWith(&lintutil.MapResolver{Main: plain, Modules: t.mods, Budget: 100}, reqs)
		oc.Evals++
		if st0 != "" {
			oc.Inconc = append(oc.Inconc, "hand2/callarg: base "+t.name+": "+st0)
			continue
		}
		for gi := 0; gi < len(parts)-1; gi++ {
			for _, style := range []string{"/*", "//", "#"} {
				c := render.NewPlainComment(r, gi+1)
				c.Style = style
				var sb strings.Builder
				for i, pt := range parts {
					sb.WriteString(pt)
					if i == gi {
						sb.WriteString(c.String())
						if style != "/*" {
							sb.WriteString("\n")
						}
					}
				}
				fw.JournalS(sb.String())
				cur, st1 := serveWith(&lintutil.MapResolver{Main: sb.String(), Modules: t.mods, Budget: 100}, reqs)
				oc.Evals++
				key := fmt.Sprintf("hand2:callarg/%s/%s", t.name, styleName(c))
				if st1 != "" {
					oc.Violate(key+"/"+strings.SplitN(st1, ":", 2)[0], "one comment inside the call makes ServeHTTP fail: "+clip(st1, 200), map[string]any{"plain": plain, "decorated": sb.String()})
					continue
				}
				var ds []string
				diffPaths(base, cur, "", &ds)
				if len(ds) > 0 {
					oc.Violate(key+"/differs", fmt.Sprintf("one comment at gap %d of the call changes the process document at %s", gi, clip(strings.Join(ds, " "), 200)), map[string]any{"plain": plain, "decorated": sb.String(), "paths": ds})
					continue
				}
				oc.NonTrivialS(sb.String())
				oc.Tag("hand2:callarg/" + t.name)
			}
		}
	}

	// ---- macro look-alikes ---------------------------------------------------------------------
	// Only "#FASTLY <scope>" is the macro at which scoped snippets are expanded; an ordinary comment
	// that mentions fastly, in front of an earlier statement, must not move the expansion.
	snips := &snippet.Snippets{ScopedSnippets: snippet.ScopedSnippets{"recv": []snippet.Item{{Name: "mark", Priority: 10, Data: "set req.http.Order = req.http.Order \"+snippet\";\n"}}}, IncludeSnippets: snippet.IncludeSnippets{}}
	macroTpl := "sub vcl_recv {\n«»  set req.http.Order = \"user\";\n  #FASTLY RECV\n«»  log \"order=\" req.http.Order;\n" + strings.Replace(tail, "set obj.http.X-Added = req.http.X-Added;", "set obj.http.X-Added = req.http.Order;", 1)
	mparts := strings.Split(macroTpl, "«»")
	mplain := strings.Join(mparts, "")
	mbase, mst0 := serveWith(&lintutil.MapResolver{Main: mplain, Budget: 10}, reqs, context.WithSnippets(snips))
	oc.Evals++
	if mst0 != "" {
		oc.Inconc = append(oc.Inconc, "hand2/macro: base: "+mst0)
	} else {
		for gi := 0; gi < len(mparts)-1; gi++ {
			for _, c := range []string{"// fastly recv snippets are expanded below", "# fastly recv", "/* FASTLY RECV */", "// FASTLY RECV", "# FASTLY RECV", "#fastly recv", "#  FASTLY RECV", "/* #FASTLY RECV */", "// #FASTLY RECV", "# not the #FASTLY RECV macro", "#FASTLYRECV", "#FASTLY-RECV"} {
				var sb strings.Builder
				for i, pt := range mparts {
					sb.WriteString(pt)
					if i == gi {
						sb.WriteString("  " + c + "\n")
					}
				}
				fw.JournalS(sb.String())
				cur, st1 := serveWith(&lintutil.MapResolver{Main: sb.String(), Budget: 10}, reqs, context.WithSnippets(snips))
				oc.Evals++
				key := fmt.Sprintf("hand2:macro-lookalike/gap%d", gi)
				var ds []string
				if st1 == "" {
					diffPaths(mbase, cur, "", &ds)
				}
				switch {
				case st1 != "":
					oc.Violate(key+"/"+strings.SplitN(st1, ":", 2)[0], "an ordinary comment makes ServeHTTP fail: "+clip(st1, 200), map[string]any{"plain": mplain, "decorated": sb.String(), "comment": c})
				case len(ds) > 0:
					oc.Violate(key+"/differs", fmt.Sprintf("the ordinary comment %q changes the process document at %s (the scoped snippet is expanded at it)", c, clip(strings.Join(ds, " "), 160)), map[string]any{"plain": mplain, "decorated": sb.String(), "comment": c, "paths": ds})
				default:
					oc.NonTrivialS(sb.String())
					oc.Tag("hand2:macro-lookalike")
				}
			}
		}
	}

	// ---- @process marks -------------------------------------------------------------------------
	// "@process name" in a leading comment names a flow of the process document; ordinary comments in
	// the same group of leading comments (above, below, other markers) leave the names alone
	procTpl := "sub vcl_recv {\n  #FASTLY recv\n  set req.http.X-Class = \"other\";\n«»  // @process normalise-host\n«»  set req.http.X-Host = std.tolower(req.http.Host);\n«»  # @process classify\n«»  if (req.url ~ \"^/x\") {\n    set req.http.X-Class = \"x\";\n  }\n  log \"recv \" req.http.X-Host \" \" req.http.X-Class;\n" + tail
	pparts := strings.Split(procTpl, "«»")
	pplain := strings.Join(pparts, "")
	pbase, pst0 := serveWith(&lintutil.MapResolver{Main: pplain, Budget: 10}, reqs)
	oc.Evals++
	if pst0 != "" {
		oc.Inconc = append(oc.Inconc, "hand2/process: base: "+pst0)
	} else {
		for gi := 0; gi < len(pparts)-1; gi++ {
			for _, c := range []string{"// Host names are case insensitive,", "# (only the demo area is classified so far)", "/* for the integration tests */", "// @author cdn-team", "//", "# process the request", "/* a\n   b */"} {
				var sb strings.Builder
				for i, pt := range pparts {
					sb.WriteString(pt)
					if i == gi {
						sb.WriteString("  " + c + "\n")
					}
				}
				fw.JournalS(sb.String())
				cur, st1 := serveWith(&lintutil.MapResolver{Main: sb.String(), Budget: 10}, reqs)
				oc.Evals++
				key := fmt.Sprintf("hand2:process-mark/gap%d", gi)
				var ds []string
				if st1 == "" {
					diffPaths(pbase, cur, "", &ds)
				}
				switch {
				case st1 != "":
					oc.Violate(key+"/"+strings.SplitN(st1, ":", 2)[0], "an ordinary comment next to a @process mark makes ServeHTTP fail: "+clip(st1, 200), map[string]any{"plain": pplain, "decorated": sb.String(), "comment": c})
				case len(ds) > 0:
					oc.Violate(key+"/differs", fmt.Sprintf("the ordinary comment %q next to a @process mark changes the process document at %s", c, clip(strings.Join(ds, " "), 160)), map[string]any{"plain": pplain, "decorated": sb.String(), "comment": c, "paths": ds})
				default:
					oc.NonTrivialS(sb.String())
					oc.Tag("hand2:process-mark")
				}
			}
		}
	}

	// ---- macro forms inside a user subroutine ----------------------------------------------------------
	// Scoped snippets are expanded at the macro of the Fastly subroutine; a comment of any of these forms in
	// a helper that vcl_recv calls does not expand them again
	userTpl := "sub helper {\n«»  set req.http.Order = req.http.Order \"+helper\";\n}\nsub vcl_recv {\n  set req.http.Order = \"user\";\n  #FASTLY RECV\n  call helper;\n  log \"order=\" req.http.Order;\n" + strings.Replace(tail, "set obj.http.X-Added = req.http.X-Added;", "set obj.http.X-Added = req.http.Order;", 1)
	uparts := strings.Split(userTpl, "«»")
	uplain := strings.Join(uparts, "")
	ubase, ust0 := serveWith(&lintutil.MapResolver{Main: uplain, Budget: 10}, reqs, context.WithSnippets(snips))
	oc.Evals++
	if ust0 != "" {
		oc.Inconc = append(oc.Inconc, "hand2/macro-in-helper: base: "+ust0)
	} else {
		for _, c := range []string{"#FASTLY recv has already been expanded when this helper runs, see vcl_recv", "#FASTLY RECV", "#FASTLY recv", "// fastly recv", "# FASTLY RECV", "/* #FASTLY RECV */", "#FASTLY DELIVER"} {
			src := uparts[0] + "  " + c + "\n" + uparts[1]
			fw.JournalS(src)
			cur, st1 := serveWith(&lintutil.MapResolver{Main: src, Budget: 10}, reqs, context.WithSnippets(snips))
			oc.Evals++
			var ds []string
			if st1 == "" {
				diffPaths(ubase, cur, "", &ds)
			}
			switch {
			case st1 != "":
				oc.Violate("hand2:macro-in-helper/"+strings.SplitN(st1, ":", 2)[0], "a comment in a helper subroutine makes ServeHTTP fail: "+clip(st1, 200), map[string]any{"plain": uplain, "decorated": src, "comment": c})
			case len(ds) > 0:
				oc.Violate("hand2:macro-in-helper/differs", fmt.Sprintf("the comment %q in a helper subroutine changes the process document at %s (the scoped snippets are expanded again)", c, clip(strings.Join(ds, " "), 160)), map[string]any{"plain": uplain, "decorated": src, "comment": c, "paths": ds})
			default:
				oc.NonTrivialS(src)
				oc.Tag("hand2:macro-in-helper")
			}
		}
	}

	// ---- module --------------------------------------------------------------------------------
	mainIn := "sub vcl_recv {\n  #FASTLY RECV\n  include \"mod_headers\";\n  log \"mod=\" req.http.X-Mod \" after=\" req.http.X-After;\n" + tail
	mainRoot := "include \"mod_root\";\nsub vcl_recv {\n  #FASTLY RECV\n  call from_mod;\n  log \"mod=\" req.http.X-Mod \" after=\" req.http.X-After;\n" + tail
	stm := "set req.http.X-Mod = \"1\";\nset req.http.X-After = \"2\";\n"
	root := "sub from_mod {\n  set req.http.X-Mod = \"1\";\n  set req.http.X-After = \"2\";\n}\n"
	for _, mc := range []struct {
		name, main, modName, mod string
	}{{"in-sub", mainIn, "mod_headers", stm}, {"at-root", mainRoot, "mod_root", root}} {
		base, st0 := serveWith(&lintutil.MapResolver{Main: mc.main, Modules: map[string]string{mc.modName: mc.mod}, Budget: 100}, reqs)
		baseLint, lst0 := lintAny(mc.main, map[string]string{mc.modName: mc.mod})
		oc.Evals += 2
		if st0 != "" || lst0 != "" {
			oc.Inconc = append(oc.Inconc, "hand2/module: base "+mc.name+": "+st0+lst0)
			continue
		}
		trimmed := strings.TrimSuffix(mc.mod, "\n")
		variants := map[string]string{
			"no-final-newline":                   trimmed,
			"comment-at-end":                     mc.mod + "# end of module\n",
			"comment-at-end-no-final-newline":    mc.mod + "# end of module",
			"slash-comment-at-end-no-newline":    mc.mod + "// end of module",
			"block-comment-at-end-no-newline":    mc.mod + "/* end of module */",
			"comment-at-top":                     "# module header\n" + mc.mod,
			"block-comment-at-top":               "/* module\n   header */\n" + mc.mod,
			"blank-lines-around":                 "\n\n" + mc.mod + "\n\n\n",
			"crlf":                               strings.ReplaceAll(mc.mod, "\n", "\r\n"),
			"trailing-blanks":                    strings.ReplaceAll(mc.mod, ";\n", ";   \t\n"),
			"comment-after-statement-no-newline": trimmed + " // last",
		}
		for vn, vm := range variants {
			fw.JournalS(mc.main + "\n--- module:\n" + vm)
			cur, st1 := serveWith(&lintutil.MapResolver{Main: mc.main, Modules: map[string]string{mc.modName: vm}, Budget: 100}, reqs)
			curLint, lst1 := lintAny(mc.main, map[string]string{mc.modName: vm})
			oc.Evals += 2
			key := "hand2:module/" + mc.name + "/" + vn
			detail := map[string]any{"main": mc.main, "module": vm, "plain_module": mc.mod}
			var ds []string
			if st1 == "" {
				diffPaths(base, cur, "", &ds)
			}
			switch {
			case st1 != "":
				oc.Violate(key+"/sim:"+strings.SplitN(st1, ":", 2)[0], "comments / white space in the included module make ServeHTTP fail: "+clip(st1, 200), detail)
			case len(ds) > 0:
				detail["paths"] = ds
				oc.Violate(key+"/sim:differs", "comments / white space in the included module change the process document at "+clip(strings.Join(ds, " "), 200), detail)
			case lst1 != "":
				oc.Violate(key+"/lint:"+lst1, "comments / white space in the included module make the linter fail", detail)
			case lintutil.Multiset(curLint) != lintutil.Multiset(baseLint):
				oc.Violate(key+"/lint:differs", "comments / white space in the included module change the diagnostics: "+clip(lintutil.DiffMultiset(baseLint, curLint)+lintutil.DiffMultiset(curLint, baseLint), 200), detail)
			default:
				oc.NonTrivialS(mc.main + vm)
				oc.Tag("hand2:module/" + mc.name)
			}
		}
	}
}
