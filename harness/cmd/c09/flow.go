package main

// Flow half of C09: whole programs are served through Interpreter.ServeHTTP (the complete request
// lifecycle, with real backend fetches against loopback origins) next to variants that differ only
// by ONE comment inserted at ONE token boundary (found with falco's own lexer) or by re-spaced
// whitespace; the process documents (flows with per-subroutine header snapshots, logs, restarts,
// backend, cached, error, client response) must be identical.

import (
	"encoding/json"
	"fmt"
	"math/rand"
	"net/http"
	"net/http/httptest"
	"net/url"
	"sort"
	"strings"

	"github.com/ysugimoto/falco/v2/interpreter"
	"github.com/ysugimoto/falco/v2/interpreter/context"
	"github.com/ysugimoto/falco/v2/lexer"
	"github.com/ysugimoto/falco/v2/resolver"
	"github.com/ysugimoto/falco/v2/token"

	"verif/harness/fw"
	"verif/harness/render"
)

var originPorts [3]string

func workerInit() {
	for k := 0; k < 3; k++ {
		name := fmt.Sprintf("o%d", k+1)
		srv := httptest.NewServer(http.HandlerFunc(func(w http.ResponseWriter, r *http.Request) {
			w.Header().Set("X-Served-By", name)
			w.Header().Set("Cache-Control", "max-age=3600")
			if strings.HasPrefix(r.URL.Path, "/nocache") {
				w.Header().Set("Cache-Control", "private")
			}
			if strings.HasPrefix(r.URL.Path, "/missing") {
				w.WriteHeader(404)
			}
			w.Write([]byte("origin " + name + " " + r.URL.Path))
		}))
		u, _ := url.Parse(srv.URL)
		originPorts[k] = u.Port()
	}
}

type flowReq struct {
	Method, URL string
	Headers     map[string]string
	Remote      string
}

type flowProgram struct {
	Name string
	VCL  string
	Reqs []flowReq
}

func flowPrograms() []flowProgram {
	p1 := `backend b1 {
  .host = "127.0.0.1";
  .port = "@P1@";
  .connect_timeout = 1s;
}
backend b2 {
  .host = "127.0.0.1";
  .port = "@P2@";
}
backend b3 {
  .host = "127.0.0.1";
  .port = "@P3@";
}
director d_client client {
  .quorum = 20%;
  { .backend = b1; .weight = 1; }
  { .backend = b2; .weight = 1; }
  { .backend = b3; .weight = 1; }
}
director d_fallback fallback {
  { .backend = b3; }
  { .backend = b1; }
}
acl blocked {
  "203.0.113.0"/24;
  ! "203.0.113.7";
  "2001:db8::"/32;
}
table redirects {
  "/old": "/new",
  "/legacy": "/index",
}
sub classify STRING {
  if (req.url.path ~ "^/api/(v[0-9]+)/") {
    return "api-" re.group.1;
  } else if (req.url.ext == "css" || req.url.ext == "js") {
    return "static";
  }
  return "page";
}
sub mark_request {
  set req.http.X-Class = classify();
  if (req.http.X-Class ~ "^api") {
    set req.http.X-Api = "1";
  } elsif (req.http.X-Class == "static") {
    set req.http.X-Static = "1";
  } else {
    unset req.http.X-Api;
  }
}
sub vcl_recv {
#FASTLY RECV
  if (client.ip ~ blocked) {
    error 403 "Forbidden";
  }
  if (table.contains(redirects, req.url.path)) {
    set req.http.X-Redirect = table.lookup(redirects, req.url.path);
    error 301 "Moved";
  }
  call mark_request;
  set req.http.X-Trace = "recv:" req.restarts;
  switch (req.http.X-Class) {
  case "static":
    set req.backend = b2;
    break;
  case ~ "^api-v([0-9]+)$":
    set req.backend = d_fallback;
    set req.http.X-Api-Version = re.group.1;
    set req.http.X-Do-Pass = "1";
    break;
  default:
    set req.backend = d_client;
    break;
  }
  if (req.http.X-Do-Pass) {
    return(pass);
  }
  if (req.http.Cookie:session && !req.http.X-Static) {
    set req.http.X-Session = req.http.Cookie:session;
    return(pass);
  }
  if (req.url ~ "^/restart" && req.restarts == 0) {
    set req.http.X-Restarted = "yes";
    restart;
  }
  return(lookup);
}
sub vcl_hash {
#FASTLY HASH
  set req.hash += req.url;
  set req.hash += req.http.host;
  return(hash);
}
sub vcl_miss {
#FASTLY MISS
  set bereq.http.X-Trace = req.http.X-Trace "|miss";
  return(fetch);
}
sub vcl_pass {
#FASTLY PASS
  set bereq.http.X-Trace = req.http.X-Trace "|pass";
  return(pass);
}
sub vcl_fetch {
#FASTLY FETCH
  if (beresp.status == 404) {
    set beresp.ttl = 10s;
    set beresp.http.X-Ttl = "short";
  } else if (beresp.http.Cache-Control ~ "private") {
    set beresp.http.X-Ttl = "none";
    return(pass);
  } else {
    set beresp.ttl = 3600s;
    set beresp.http.X-Ttl = "long";
  }
  set beresp.http.X-Origin = beresp.http.X-Served-By;
  log "fetch " req.url " " beresp.status;
  return(deliver);
}
sub vcl_hit {
#FASTLY HIT
  return(deliver);
}
sub vcl_error {
#FASTLY ERROR
  if (obj.status == 301) {
    set obj.http.Location = req.http.X-Redirect;
    synthetic {"moved"};
    return(deliver);
  }
  if (obj.status == 403) {
    set obj.http.Content-Type = "text/plain";
    synthetic "go away: " + client.ip;
    return(deliver);
  }
  return(deliver);
}
sub vcl_deliver {
#FASTLY DELIVER
  set resp.http.X-Class = req.http.X-Class;
  set resp.http.X-Trace = req.http.X-Trace "|deliver";
  set resp.http.X-State = if(fastly_info.state ~ "^HIT", "hit", "not-hit");
  if (req.http.X-Restarted) {
    set resp.http.X-Restarted = req.http.X-Restarted;
  }
  return(deliver);
}
sub vcl_log {
#FASTLY LOG
  log "done " req.url " " resp.status " " resp.http.X-Origin;
}
`
	for k := 0; k < 3; k++ {
		p1 = strings.ReplaceAll(p1, fmt.Sprintf("@P%d@", k+1), originPorts[k])
	}
	reqs := []flowReq{
		{Method: "GET", URL: "http://example.com/index.html?a=1"},
		{Method: "GET", URL: "http://example.com/index.html?a=1"}, // second time: hit
		{Method: "GET", URL: "http://example.com/api/v2/users"},
		{Method: "GET", URL: "http://example.com/site.css"},
		{Method: "GET", URL: "http://example.com/old"},
		{Method: "GET", URL: "http://example.com/secret", Remote: "203.0.113.9:4711"},
		{Method: "GET", URL: "http://example.com/secret2", Remote: "203.0.113.7:4711"},
		{Method: "GET", URL: "http://example.com/six", Remote: "[2001:db8::5]:4711"},
		{Method: "GET", URL: "http://example.com/account", Headers: map[string]string{"Cookie": "a=b; session=s3cr3t"}},
		{Method: "GET", URL: "http://example.com/restart/me"},
		{Method: "GET", URL: "http://example.com/missing/page"},
		{Method: "GET", URL: "http://example.com/nocache/x"},
		{Method: "GET", URL: "http://example.com/other", Remote: "198.51.100.77:1"},
	}
	return []flowProgram{{Name: "routing", VCL: p1, Reqs: reqs}}
}

// serve runs the request list on a fresh interpreter and returns the normalised documents.
func serve(vcl string, reqs []flowReq) ([]any, string) {
	it := interpreter.New(context.WithResolver(resolver.NewStaticResolver("main.vcl", vcl)))
	var docs []any
	for _, rq := range reqs {
		rec := httptest.NewRecorder()
		req := httptest.NewRequest(rq.Method, rq.URL, nil)
		for k, v := range rq.Headers {
			req.Header.Set(k, v)
		}
		if rq.Remote != "" {
			req.RemoteAddr = rq.Remote
		}
		pn, msg, _ := fw.Guard(func() { it.ServeHTTP(rec, req) })
		if pn {
			return docs, "panic: " + msg
		}
		var doc any
		if err := json.Unmarshal(rec.Body.Bytes(), &doc); err != nil {
			doc = map[string]any{"status": rec.Code, "raw": clip(rec.Body.String(), 300)}
		}
		docs = append(docs, strip(doc))
	}
	return docs, ""
}

// strip removes what is allowed to move: source positions and elapsed times.
func strip(x any) any {
	switch t := x.(type) {
	case map[string]any:
		out := map[string]any{}
		for k, v := range t {
			switch k {
			case "file", "line", "position", "elapsed_time_us", "elapsed_time_ms", "date", "age", "expires", "last-modified", "x-timer":
				continue
			}
			out[k] = strip(v)
		}
		return out
	case []any:
		out := make([]any, len(t))
		for i, v := range t {
			out[i] = strip(v)
		}
		return out
	case string:
		return maskPosText(t)
	}
	return x
}

func maskPosText(s string) string {
	// error texts quote "line: N, position: N"
	if !strings.Contains(s, "line") {
		return s
	}
	out := []byte(s)
	for i := 0; i+5 < len(out); i++ {
		if strings.HasPrefix(string(out[i:]), "line: ") || strings.HasPrefix(string(out[i:]), "position: ") {
			j := i + strings.Index(string(out[i:]), ": ") + 2
			for j < len(out) && out[j] >= '0' && out[j] <= '9' {
				out[j] = 'N'
				j++
			}
		}
	}
	return string(out)
}

// diffPaths lists the JSON paths at which two documents differ.
func diffPaths(a, b any, path string, out *[]string) {
	switch x := a.(type) {
	case map[string]any:
		y, ok := b.(map[string]any)
		if !ok {
			*out = append(*out, path)
			return
		}
		keys := map[string]bool{}
		for k := range x {
			keys[k] = true
		}
		for k := range y {
			keys[k] = true
		}
		var ks []string
		for k := range keys {
			ks = append(ks, k)
		}
		sort.Strings(ks)
		for _, k := range ks {
			diffPaths(x[k], y[k], path+"/"+k, out)
		}
	case []any:
		y, ok := b.([]any)
		if !ok || len(x) != len(y) {
			*out = append(*out, path+"[len]")
			return
		}
		for i := range x {
			diffPaths(x[i], y[i], fmt.Sprintf("%s[%d]", path, i), out)
		}
	default:
		if fmt.Sprint(a) != fmt.Sprint(b) {
			*out = append(*out, path)
		}
	}
}

type tokPos struct {
	off  int
	typ  string
	prev string
}

// tokenStarts returns the byte offset of every token of src (falco's lexer), comments excluded.
func tokenStarts(src string) []tokPos {
	lineOff := []int{0}
	for i := 0; i < len(src); i++ {
		if src[i] == '\n' {
			lineOff = append(lineOff, i+1)
		}
	}
	lx := lexer.NewFromString(src)
	var out []tokPos
	prev := "BOF"
	for n := 0; n < 100000; n++ {
		t := lx.NextToken()
		if t.Type == token.EOF {
			break
		}
		if t.Type == token.COMMENT || t.Type == token.LF {
			continue
		}
		if t.Line-1 < len(lineOff) {
			// Position is a 1-based rune column; the programs here are ASCII
			out = append(out, tokPos{off: lineOff[t.Line-1] + t.Position - 1, typ: string(t.Type), prev: prev})
		}
		prev = string(t.Type)
	}
	return out
}

type fcase struct {
	Prog   int   `json:"prog"`
	Seed   int64 `json:"seed"`
	From   int   `json:"from"`
	To     int   `json:"to"`
	Stride int   `json:"stride"`
}

func runFlow(oc *fw.Outcome, fc fcase) {
	progs := flowPrograms()
	p := progs[fc.Prog%len(progs)]
	r := rand.New(rand.NewSource(fc.Seed))
	base, st := serve(p.VCL, p.Reqs)
	oc.Evals++
	if st != "" {
		oc.Tag("flow:base-" + strings.SplitN(st, ":", 2)[0])
		return
	}
	// what differs between two runs of the SAME text is not judged (dates, ages, ids)
	again, _ := serve(p.VCL, p.Reqs)
	var volatile []string
	diffPaths(base, again, "", &volatile)
	vol := map[string]bool{}
	for _, v := range volatile {
		vol[v] = true
	}
	oc.Sample = map[string]any{"program": p.Name, "requests": len(p.Reqs), "volatile_paths": volatile, "first_document": base[0]}
	toks := tokenStarts(p.VCL)
	check := func(variant, what, style string, ti int) {
		fw.JournalS(variant)
		oc.Evals++
		cur, st := serve(variant, p.Reqs)
		if st != "" {
			oc.Violate("flow:"+p.Name+"/"+strings.SplitN(st, ":", 2)[0]+"/"+style, "the decorated program makes ServeHTTP fail: "+clip(st, 200), map[string]any{"decorated": clip(variant, 6000), "decoration": what})
			return
		}
		var ds []string
		diffPaths(base, cur, "", &ds)
		for _, d := range ds {
			if vol[d] {
				continue
			}
			// name the field, not the request index
			field := d
			if i := strings.Index(field, "]"); i >= 0 {
				field = field[i+1:]
			}
			for strings.Contains(field, "[") {
				a, b := strings.Index(field, "["), strings.Index(field, "]")
				if b < a {
					break
				}
				field = field[:a] + field[b+1:]
			}
			ctx := "?"
			if ti >= 0 && ti < len(toks) {
				ctx = toks[ti].prev + "|" + toks[ti].typ
			}
			oc.Violate("flow:"+p.Name+field+"/"+style, fmt.Sprintf("inserting only %s changes the process document at %s (token boundary %s)", what, d, ctx),
				map[string]any{"decorated": clip(variant, 6000), "decoration": what, "path": d})
			return
		}
		oc.NonTrivialS(variant)
	}
	for ti := fc.From; ti < fc.To && ti < len(toks); ti += fc.Stride {
		off := toks[ti].off
		if toks[ti].prev == "OPEN_LONG_STRING" || toks[ti].typ == "CLOSE_LONG_STRING" {
			continue // inside a long string literal: not a token boundary of the program text
		}
		for _, style := range []string{"/*", "//", "#"} {
			c := render.NewPlainComment(r, ti)
			c.Style = style
			ins := c.String() + " "
			if style != "/*" {
				ins = c.String() + "\n"
			}
			if off > 0 && p.VCL[off-1] == '/' {
				ins = " " + ins // "/" followed by "/*" or "//" would read as a line comment that swallows the operator
			}
			check(p.VCL[:off]+ins+p.VCL[off:], fmt.Sprintf("comment %q before token %d", c.String(), ti), styleName(c), ti)
			oc.Tag("flow-boundary:" + toks[ti].prev + "|" + toks[ti].typ)
		}
	}
	// whitespace-only variants: the run of blanks in front of every token is re-spaced (a run that
	// holds a line break keeps one: it may terminate a line comment or a #FASTLY macro)
	if fc.From == 0 {
		for k := 0; k < 4; k++ {
			var sb strings.Builder
			last := 0
			for _, t := range toks {
				ws := t.off
				for ws > last && strings.ContainsRune(" \t\r\n", rune(p.VCL[ws-1])) {
					ws--
				}
				sb.WriteString(p.VCL[last:ws])
				run := p.VCL[ws:t.off]
				switch {
				case run == "", t.prev == "OPEN_LONG_STRING", t.typ == "CLOSE_LONG_STRING":
				case strings.Contains(run, "\n"):
					run = []string{"\n", "\r\n", "\n\n", " \n\t", "\n    ", "\n\n\n"}[r.Intn(6)]
				default:
					run = []string{" ", "\t", "  ", "\n", " \n ", "\r\n"}[r.Intn(6)]
				}
				sb.WriteString(run)
				last = t.off
			}
			sb.WriteString(p.VCL[last:])
			check(sb.String(), "different whitespace", "whitespace", -1)
		}
	}
}
