package main

import (
	"fmt"
	"math/rand"
	"os"
	"strconv"

	"verif/harness/gen"
	"verif/harness/render"
	"verif/harness/sim"
	"verif/harness/tsim"
)

func main() {
	seed, _ := strconv.ParseInt(os.Args[1], 10, 64)
	r := rand.New(rand.NewSource(seed))
	for i := 0; i < 40; i++ {
		p := gen.TypedProgram(r, 5+r.Intn(10))
		ref := p.ReferencePre()
		names := tsim.PoolNames(p)
		mainSrc := render.Canonical(p.MainToks)
		subSrc, pos := render.RenderPos(p.SubToks, render.Plan{Mode: "canonical"})
		res := sim.RunSub(mainSrc, subSrc, "RECV", names, sim.Request{})
		preOf := map[[2]int]int{}
		for k, ti := range p.PreTok {
			preOf[[2]int{pos[ti].Line, pos[ti].Col}] = k
		}
		var seq []int
		var kinds []string
		for _, s := range res.Snaps {
			if s.File == "main.vcl" {
				continue
			}
			if k, ok := preOf[[2]int{s.Line, s.Pos}]; ok {
				seq = append(seq, k)
				kinds = append(kinds, s.Kind)
			}
		}
		var rs []int
		for _, ps := range ref.Pre {
			rs = append(rs, ps.Idx)
		}
		same := len(seq) == len(rs)
		for k := 0; same && k < len(seq); k++ {
			same = seq[k] == rs[k]
		}
		if !same {
			k := 0
			for k < len(seq) && k < len(rs) && seq[k] == rs[k] {
				k++
			}
			if k > 0 {
				ti := p.PreTok[rs[k-1]]
				end := ti + 60
				if end > len(p.SubToks) {
					end = len(p.SubToks)
				}
				var ws []string
				for _, t := range p.SubToks[ti:end] {
					ws = append(ws, t.S)
				}
				fmt.Println("CULPRIT:", ws)
				fmt.Println("REFVALS:", ref.Pre[k-1].Vals)
			}
			show := func(label string, idx int) {
				if idx >= len(p.PreTok) {
					return
				}
				ti := p.PreTok[idx]
				end := ti + 14
				if end > len(p.SubToks) {
					end = len(p.SubToks)
				}
				var ws []string
				for _, t := range p.SubToks[ti:end] {
					ws = append(ws, t.S)
				}
				fmt.Println(label, idx, ws)
			}
			if k < len(seq) {
				show("FALCO NEXT:", seq[k])
			}
			if k < len(rs) {
				show("REF NEXT:", rs[k])
			}
			if len(os.Args) > 2 {
				return
			}
			fmt.Println(mainSrc)
			fmt.Println(subSrc)
			fmt.Println("falco:", seq)
			fmt.Println("kinds:", kinds)
			fmt.Println("ref  :", rs)
			fmt.Println("pretok:", p.PreTok)
			fmt.Println("err:", res.Err)
			for k, ti := range p.PreTok {
				fmt.Println(k, pos[ti], p.SubToks[ti].S)
			}
			return
		}
	}
	fmt.Println("all same")
}
