// C15 — see package fmtcheck (one workload, three oracles: C03 meaning, C14 idempotence, C15 comments).
package main

import "verif/harness/fmtcheck"

func main() { fmtcheck.Main("C15") }
