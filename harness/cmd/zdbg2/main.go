package main

import (
	"fmt"
	"os"
	"strings"
	"verif/harness/sim"
)

func main() {
	mainSrc := "backend b { .host = \"127.0.0.1\"; }\nsub vcl_recv {\n#FASTLY RECV\nreturn(lookup);\n}\n"
	b, _ := os.ReadFile(os.Args[1])
	for _, prog := range strings.Split(string(b), "\n----\n") {
		scope := "RECV"
		if strings.HasPrefix(prog, "@") {
			nl := strings.Index(prog, "\n")
			scope, prog = prog[1:nl], prog[nl+1:]
		}
		res := sim.RunSub(mainSrc, prog, scope, nil, sim.Request{}, func(m *sim.Monitor) { m.NoSnaps = true })
		e := ""
		if res.Err != nil {
			e = " ERR: " + strings.SplitN(res.Err.Error(), "\n", 2)[0]
		}
		if res.ParseErr != nil || res.InitErr != nil {
			e += fmt.Sprint(" PARSE/INIT: ", res.ParseErr, res.InitErr)
		}
		fmt.Println(scope, strings.Join(res.Logs, " | ")+e)
	}
}
