package main

import (
	"fmt"
	"os"
	"strings"
	"verif/harness/sim"
)

func main() {
	mb, _ := os.ReadFile(os.Args[2]); mainSrc := string(mb)
	b, _ := os.ReadFile(os.Args[1])
	res := sim.RunSub(mainSrc, string(b), "RECV", nil, sim.Request{}, func(m *sim.Monitor) { m.NoSnaps = true })
	fmt.Println(strings.Join(res.Logs, "\n"))
	fmt.Println(res.Err, res.InitErr, res.ParseErr)
}
