package gen

// Typed mode: type-directed generator of executable core-language programs together with a
// REFERENCE EVALUATOR (Eval) that interprets the generator's own IR. The evaluator never sees
// falco's AST or values; its semantics follow the Fastly documentation of the VCL core language:
// INTEGER = int64, FLOAT = IEEE double, RTIME = milliseconds, BOOL, STRING = (bytes, not-set),
// short-circuit logical operators, first-matching switch case with fallthrough, assignment
// operators per type. The generator uses the evaluator while generating, so that every EXECUTED
// statement stays within range (no overflow, no division by zero, shift counts 0..1000 - 64 and more shift every bit out, rotations count modulo 64): what happens
// outside that range belongs to property C08, not to C07/C13.

import (
	"fmt"
	"math"
	"math/bits"
	"math/rand"
	"regexp"
	"strconv"
	"strings"
)

type TType int

const (
	TI TType = iota
	TF
	TS
	TB
	TT
)

func (t TType) String() string { return [...]string{"INTEGER", "FLOAT", "STRING", "BOOL", "RTIME"}[t] }

// TVal is a reference value.
type TVal struct {
	T      TType
	I      int64
	F      float64
	S      string
	NotSet bool
	B      bool
	Ms     int64 // RTIME in milliseconds
}

// Render prints the value the way a VCL value is stringified (INTEGER decimal, FLOAT and RTIME
// with three decimals, BOOL 1/0, not-set STRING "(null)").
func (v TVal) Render() string {
	switch v.T {
	case TI:
		return strconv.FormatInt(v.I, 10)
	case TF:
		return strconv.FormatFloat(v.F, 'f', 3, 64)
	case TS:
		if v.NotSet {
			return "(null)"
		}
		return v.S
	case TB:
		if v.B {
			return "1"
		}
		return "0"
	case TT:
		return strconv.FormatFloat(float64(v.Ms)/1000, 'f', 3, 64)
	}
	return "?"
}

// ---- IR --------------------------------------------------------------------------------------

type TExpr interface{ texpr() }

type TLit struct {
	V   TVal
	Src string
}
type TVar struct {
	Name string
	T    TType
}
type THdr struct{ Name string } // req.http.X (STRING, may be not set)
type TConcat struct {
	Parts    []TExpr
	Explicit []bool
}
type TCmp struct {
	Op   string
	L, R TExpr
}
type TRegex struct {
	L   TExpr
	Pat string
	Neg bool
}
type TNot struct{ X TExpr }
type TLogic struct {
	Op   string // && ||
	L, R TExpr
}
type TGroup struct{ X TExpr }

// TNeg is unary minus applied to a numeric VARIABLE (`-var.i0`).
type TNeg struct{ X TVar }

func (TLit) texpr()    {}
func (TVar) texpr()    {}
func (THdr) texpr()    {}
func (TConcat) texpr() {}
func (TCmp) texpr()    {}
func (TRegex) texpr()  {}
func (TNot) texpr()    {}
func (TLogic) texpr()  {}
func (TGroup) texpr()  {}
func (TNeg) texpr()    {}

type TStmt interface{ tstmt() }

type TSet struct {
	Target string
	T      TType
	Header bool
	Op     string
	Val    TExpr
}
type TUnset struct{ Target string }
type TLog struct {
	Marker string
	Val    TExpr
}
type TElseIf struct {
	Kw   string
	Cond TExpr
	Body []TStmt
}
type TIf struct {
	Cond    TExpr
	Then    []TStmt
	ElseIfs []TElseIf
	Else    []TStmt
	HasElse bool
}
type TCase struct {
	Val         string
	Regex       bool
	Default     bool
	Body        []TStmt
	Fallthrough bool
}
type TSwitch struct {
	Ctl   TExpr
	Cases []TCase
}
type TCall struct {
	Sub  string
	Args []TExpr
}

// TReturn ends the current subroutine: with an Action in the driven subroutine (the state the
// state machine moves to), bare inside helper subroutines.
type TReturn struct {
	Action string
	Paren  bool
}

func (TSet) tstmt()    {}
func (TUnset) tstmt()  {}
func (TLog) tstmt()    {}
func (TIf) tstmt()     {}
func (TSwitch) tstmt() {}
func (TCall) tstmt()   {}
func (TReturn) tstmt() {}

// TSub is a helper subroutine with by-value parameters.
type TSub struct {
	Name   string
	Params []TVar
	Locals []TVar // declared inside (besides the parameters)
	Body   []TStmt
}

// TProgram is a typed program: helper subroutines live in the main VCL, the driven subroutine `t`
// is parsed separately (the way `falco test` runs a test subroutine).
type TProgram struct {
	Subs   []*TSub
	Locals []TVar
	Init   []TStmt
	Body   []TStmt
	// token lists with slots (for layouts and decorations)
	MainToks []Tok
	SubToks  []Tok
	Stmts    []StmtRange // statements of the driven subroutine (token ranges in SubToks)
	// PreTok[k] is the index in SubToks of the first token of the k-th statement of Init+Body in
	// PRE-ORDER (a compound statement before the statements nested in it); the last entry is the
	// closing `log "__end"` when the body does not end with a return.
	PreTok []int
	Features map[string]int
}

// ---- reference evaluator ---------------------------------------------------------------------

type Env struct {
	Vars  map[string]TVal
	Hdrs  map[string]TVal // lower-case header name
	Group map[int]TVal    // re.group.N of the current frame
	Logs  []string
	// OutOfRange is set when an executed statement leaves the documented range (the generator
	// then discards the statement); Why says which.
	OutOfRange bool
	Why        string
	Trace      []TraceStep
	Subs       map[string]*TSub
	depth      int
	wsBytes    int
	nullText   bool
	hdrCtx     bool
	// Pre, when TracePre is set, is the state BEFORE each executed statement of the driven
	// subroutine's own frame, identified by its pre-order index (see TProgram.PreTok).
	TracePre bool
	Pre      []PreStep
	// ZeroLenMatch counts successful regex matches of zero length evaluated so far
	ZeroLenMatch int
	// Returned is set by a return statement until the frame it belongs to is left; State is the
	// action returned by the driven subroutine ("" = fell off the end).
	Returned bool
	State    string
}

// TraceStep is the reference state after one executed statement of the driven subroutine's frame.
type TraceStep struct {
	Kind string
	Vars map[string]string
}

// PreStep is the reference state before one executed statement.
type PreStep struct {
	Idx  int
	Stmt TStmt
	// ZeroLen is Env.ZeroLenMatch when the statement starts
	ZeroLen int
	Vals map[string]TVal // locals, "req.http.<lower-case name>" (absent = not set), "re.group.N"
}

// Count is the number of statements (nested ones included) in pre-order.
func Count(stmts []TStmt) int {
	n := 0
	for _, s := range stmts {
		n++
		switch t := s.(type) {
		case TIf:
			n += Count(t.Then)
			for _, ei := range t.ElseIfs {
				n += Count(ei.Body)
			}
			n += Count(t.Else)
		case TSwitch:
			for _, c := range t.Cases {
				n += Count(c.Body)
			}
		}
	}
	return n
}

// Flatten lists statements (nested ones included) in pre-order: Flatten(x)[k] has pre-order index k.
func Flatten(stmts []TStmt) []TStmt {
	var out []TStmt
	for _, s := range stmts {
		out = append(out, s)
		switch t := s.(type) {
		case TIf:
			out = append(out, Flatten(t.Then)...)
			for _, ei := range t.ElseIfs {
				out = append(out, Flatten(ei.Body)...)
			}
			out = append(out, Flatten(t.Else)...)
		case TSwitch:
			for _, c := range t.Cases {
				out = append(out, Flatten(c.Body)...)
			}
		}
	}
	return out
}

// HasRegex reports whether evaluating the expression may run a regex match.
func HasRegex(x TExpr) bool {
	switch t := x.(type) {
	case TRegex:
		return true
	case TNot:
		return HasRegex(t.X)
	case TGroup:
		return HasRegex(t.X)
	case TLogic:
		return HasRegex(t.L) || HasRegex(t.R)
	case TCmp:
		return HasRegex(t.L) || HasRegex(t.R)
	case TConcat:
		for _, p := range t.Parts {
			if HasRegex(p) {
				return true
			}
		}
	}
	return false
}

func (e *Env) pre(idx int, s TStmt) {
	if !e.TracePre || e.depth > 0 {
		return
	}
	m := make(map[string]TVal, len(e.Vars)+len(e.Hdrs)+len(e.Group))
	for k, v := range e.Vars {
		m[k] = v
	}
	for k, v := range e.Hdrs {
		m["req.http."+k] = v
	}
	for k, v := range e.Group {
		m[fmt.Sprintf("re.group.%d", k)] = v
	}
	e.Pre = append(e.Pre, PreStep{Idx: idx, Stmt: s, Vals: m, ZeroLen: e.ZeroLenMatch})
}

func NewEnv() *Env {
	return &Env{Vars: map[string]TVal{}, Hdrs: map[string]TVal{}, Group: map[int]TVal{}, Subs: map[string]*TSub{}}
}

func (e *Env) oor(why string) {
	if !e.OutOfRange {
		e.OutOfRange, e.Why = true, why
	}
}

func truthy(v TVal) bool {
	switch v.T {
	case TB:
		return v.B
	case TS:
		return !v.NotSet // a not-set string is falsy; an empty one is set
	case TI:
		return v.I != 0
	}
	return false
}

// strOf is the string conversion used by concatenation.
func strOf(v TVal) string {
	if v.T == TS {
		if v.NotSet {
			return ""
		}
		return v.S
	}
	return v.Render()
}

func (e *Env) Eval(x TExpr) TVal {
	switch t := x.(type) {
	case TLit:
		return t.V
	case TVar:
		v, ok := e.Vars[t.Name]
		if !ok {
			e.oor("undeclared " + t.Name)
			return TVal{T: t.T}
		}
		return v
	case THdr:
		v, ok := e.Hdrs[strings.ToLower(t.Name)]
		if !ok {
			return TVal{T: TS, NotSet: true}
		}
		return v
	case TGroup:
		return e.Eval(t.X)
	case TNeg:
		v := e.Eval(t.X)
		switch v.T {
		case TI:
			if v.I == math.MinInt64 {
				e.oor("negation overflow")
			}
			v.I = -v.I
		case TF:
			v.F = -v.F
		case TT:
			v.Ms = -v.Ms
		}
		return v
	case TConcat:
		var sb strings.Builder
		for _, p := range t.Parts {
			v := e.Eval(p)
			if e.nullText && v.T == TS && v.NotSet {
				if e.hdrCtx {
					// what a header gets from a concatenation with a not-set operand is not documented
					// (falco: "(null)" next to text, not set when nothing else is there): not generated
					e.oor("not-set operand in a concatenation assigned to a header")
				}
				// in a log statement a not-set operand renders "(null)"
				sb.WriteString("(null)")
				continue
			}
			sb.WriteString(strOf(v))
		}
		return TVal{T: TS, S: sb.String()}
	case TNot:
		return TVal{T: TB, B: !truthy(e.Eval(t.X))}
	case TLogic:
		l := truthy(e.Eval(t.L))
		if t.Op == "&&" {
			if !l {
				return TVal{T: TB, B: false}
			}
			return TVal{T: TB, B: truthy(e.Eval(t.R))}
		}
		if l {
			return TVal{T: TB, B: true}
		}
		return TVal{T: TB, B: truthy(e.Eval(t.R))}
	case TRegex:
		l := e.Eval(t.L)
		re, err := regexp.Compile(t.Pat)
		if err != nil {
			e.oor("regex")
			return TVal{T: TB}
		}
		m := re.FindStringSubmatch(strOf(l))
		if m != nil && m[0] == "" {
			e.ZeroLenMatch++
		}
		if m != nil {
			// a successful match (re)sets the capture groups of the frame
			e.Group = map[int]TVal{}
			for i, g := range m {
				e.Group[i] = TVal{T: TS, S: g}
			}
		}
		return TVal{T: TB, B: (m != nil) != t.Neg}
	case TCmp:
		l, r := e.Eval(t.L), e.Eval(t.R)
		var c int
		switch l.T {
		case TI:
			c = cmpI(l.I, r.I)
		case TF:
			c = cmpF(l.F, r.F)
		case TT:
			c = cmpI(l.Ms, r.Ms)
		case TB:
			eq := l.B == r.B
			return TVal{T: TB, B: eq == (t.Op == "==")}
		case TS:
			// a not-set string equals nothing
			if l.NotSet || r.NotSet {
				return TVal{T: TB, B: t.Op == "!="}
			}
			eq := l.S == r.S
			return TVal{T: TB, B: eq == (t.Op == "==")}
		}
		switch t.Op {
		case "==":
			return TVal{T: TB, B: c == 0}
		case "!=":
			return TVal{T: TB, B: c != 0}
		case "<":
			return TVal{T: TB, B: c < 0}
		case ">":
			return TVal{T: TB, B: c > 0}
		case "<=":
			return TVal{T: TB, B: c <= 0}
		case ">=":
			return TVal{T: TB, B: c >= 0}
		}
	}
	return TVal{}
}

func cmpI(a, b int64) int {
	switch {
	case a < b:
		return -1
	case a > b:
		return 1
	}
	return 0
}
func cmpF(a, b float64) int {
	switch {
	case a < b:
		return -1
	case a > b:
		return 1
	}
	return 0
}

// conv converts a numeric operand of another numeric type into the target's domain (INTEGER and
// FLOAT count seconds when they meet an RTIME). Only conversions that are exact under every
// rounding rule are in range.
func (e *Env) conv(val TVal, target TType) TVal {
	if val.T == target {
		return val
	}
	switch target {
	case TI:
		switch val.T {
		case TF:
			if val.F != math.Trunc(val.F) || math.Abs(val.F) > 1e15 {
				e.oor("inexact FLOAT to INTEGER")
			}
			return TVal{T: TI, I: int64(val.F)}
		case TT:
			if val.Ms%1000 != 0 {
				e.oor("inexact RTIME to INTEGER")
			}
			return TVal{T: TI, I: val.Ms / 1000}
		}
	case TF:
		switch val.T {
		case TI:
			if abs64(val.I) > 1<<52 {
				e.oor("inexact INTEGER to FLOAT")
			}
			return TVal{T: TF, F: float64(val.I)}
		case TT:
			return TVal{T: TF, F: float64(val.Ms) / 1000}
		}
	case TT:
		switch val.T {
		case TI:
			if abs64(val.I) > 9e9 {
				e.oor("RTIME range") // a duration of more than ~292 years overflows: out of range (C08)
			}
			return TVal{T: TT, Ms: val.I * 1000}
		case TF:
			ms := val.F * 1000
			if ms != math.Trunc(ms) || math.Abs(ms) > 1e15 {
				e.oor("inexact FLOAT to RTIME")
			}
			return TVal{T: TT, Ms: int64(ms)}
		}
	}
	return val
}

// assign applies `target op= val`.
func (e *Env) assign(cur TVal, op string, val TVal) TVal {
	// an RTIME is scaled by a plain number
	if cur.T == TT && (op == "*=" || op == "/=") && (val.T == TI || val.T == TF) {
		f := val.F
		if val.T == TI {
			f = float64(val.I)
		}
		if f == 0 {
			e.oor("division")
			return cur
		}
		if abs64(cur.Ms) > 1e11 || math.Abs(f) > 1e6 {
			e.oor("RTIME scaling beyond the exactly representable range")
			return cur
		}
		if f*1024 != math.Trunc(f*1024) {
			// a factor like 0.3 has no exact binary form: the product depends on the unit the implementation
			// multiplies in (135090 ms, but 135089.999... when the duration is held in nanoseconds)
			e.oor("RTIME scaling by a factor that is no multiple of 1/1024")
			return cur
		}
		r := float64(cur.Ms) * f
		if op == "/=" {
			r = float64(cur.Ms) / f
		}
		if r != math.Trunc(r) || math.Abs(r) > 1e11 {
			e.oor("inexact RTIME scaling")
			return cur
		}
		return TVal{T: TT, Ms: int64(r)}
	}
	if cur.T != val.T && (cur.T == TI || cur.T == TF || cur.T == TT) && (val.T == TI || val.T == TF || val.T == TT) {
		// mixed operands go through binary floating point in any implementation: stay where that is exact
		if cur.T == TI && abs64(cur.I) > 1<<40 || cur.T == TT && abs64(cur.Ms) > 1e11 || cur.T == TF && math.Abs(cur.F) > 1e9 {
			e.oor("mixed operands beyond the exactly representable range")
		}
		val = e.conv(val, cur.T)
		if val.T == TI && abs64(val.I) > 1<<40 || val.T == TT && abs64(val.Ms) > 1e11 || val.T == TF && math.Abs(val.F) > 1e9 {
			e.oor("mixed operands beyond the exactly representable range")
		}
	}
	switch cur.T {
	case TI:
		a, b := cur.I, val.I
		switch op {
		case "=":
			return TVal{T: TI, I: b}
		case "+=":
			s := a + b
			if (s > a) != (b > 0) && b != 0 {
				e.oor("int overflow")
			}
			return TVal{T: TI, I: s}
		case "-=":
			s := a - b
			if (s < a) != (b > 0) && b != 0 {
				e.oor("int overflow")
			}
			return TVal{T: TI, I: s}
		case "*=":
			if a != 0 && b != 0 {
				hi, lo := bits.Mul64(uint64(abs64(a)), uint64(abs64(b)))
				if hi != 0 || lo > math.MaxInt64 {
					e.oor("int overflow")
				}
			}
			return TVal{T: TI, I: a * b}
		case "/=":
			if b == 0 || a == math.MinInt64 && b == -1 {
				e.oor("division")
				return cur
			}
			return TVal{T: TI, I: a / b}
		case "%=":
			if b == 0 || a == math.MinInt64 && b == -1 {
				e.oor("remainder")
				return cur
			}
			return TVal{T: TI, I: a % b}
		case "|=":
			return TVal{T: TI, I: a | b}
		case "&=":
			return TVal{T: TI, I: a & b}
		case "^=":
			return TVal{T: TI, I: a ^ b}
		case "<<=", ">>=", "rol=", "ror=":
			if b < 0 || b > 1000 {
				e.oor("shift count")
				return cur
			}
			if b > 63 {
				// every bit is shifted out (an arithmetic right shift leaves the sign); a rotation counts modulo 64
				switch op {
				case "<<=":
					return TVal{T: TI, I: 0}
				case ">>=":
					if a < 0 {
						return TVal{T: TI, I: -1}
					}
					return TVal{T: TI, I: 0}
				}
				b %= 64
			}
			switch op {
			case "<<=":
				return TVal{T: TI, I: int64(uint64(a) << uint(b))}
			case ">>=":
				return TVal{T: TI, I: a >> uint(b)}
			case "rol=":
				return TVal{T: TI, I: int64(bits.RotateLeft64(uint64(a), int(b)))}
			default:
				return TVal{T: TI, I: int64(bits.RotateLeft64(uint64(a), -int(b)))}
			}
		}
	case TF:
		a, b := cur.F, val.F
		var r float64
		switch op {
		case "=":
			r = b
		case "+=":
			r = a + b
		case "-=":
			r = a - b
		case "*=":
			r = a * b
		case "/=":
			if b == 0 {
				e.oor("division")
				return cur
			}
			r = a / b
		}
		if math.IsInf(r, 0) || math.IsNaN(r) || math.Abs(r) > 1e15 {
			e.oor("float range")
		}
		return TVal{T: TF, F: r}
	case TS:
		switch op {
		case "=":
			// a not-set string reads as empty once assigned to a local
			return TVal{T: TS, S: strOf(val)}
		case "+=":
			return TVal{T: TS, S: strOf(cur) + strOf(val)}
		}
	case TB:
		switch op {
		case "=":
			return TVal{T: TB, B: truthy(val)}
		case "&&=":
			return TVal{T: TB, B: cur.B && truthy(val)}
		case "||=":
			return TVal{T: TB, B: cur.B || truthy(val)}
		}
	case TT:
		switch op {
		case "=", "+=", "-=":
			ms := val.Ms
			if op == "+=" {
				ms = cur.Ms + val.Ms
			} else if op == "-=" {
				ms = cur.Ms - val.Ms
			}
			if abs64(ms) > 9e12 {
				e.oor("RTIME range")
			}
			return TVal{T: TT, Ms: ms}
		}
	}
	e.oor("unsupported op " + op)
	return cur
}

func abs64(a int64) int64 {
	if a < 0 {
		return -a
	}
	return a
}

func (e *Env) snapshot(kind string) {
	if e.depth > 0 {
		return
	}
	m := map[string]string{}
	for k, v := range e.Vars {
		m[k] = v.Render()
	}
	for k, v := range e.Hdrs {
		m["req.http."+k] = v.Render()
	}
	e.Trace = append(e.Trace, TraceStep{Kind: kind, Vars: m})
}

// Exec runs statements; it returns false when execution must stop (out of range).
func (e *Env) Exec(stmts []TStmt) bool { return e.ExecAt(stmts, 0) }

// ExecAt is Exec for statements whose first one has pre-order index base.
func (e *Env) ExecAt(stmts []TStmt, base int) bool {
	idx := base
	for _, s := range stmts {
		if e.OutOfRange {
			return false
		}
		if e.Returned {
			return true
		}
		cur := idx
		idx += Count([]TStmt{s})
		e.pre(cur, s)
		switch t := s.(type) {
		case TReturn:
			e.Returned = true
			if e.depth == 0 {
				e.State = t.Action
			}
			e.snapshot("return")
		case TSet:
			e.nullText, e.hdrCtx = t.Header, t.Header
			val := e.Eval(t.Val)
			e.nullText, e.hdrCtx = false, false
			if t.Header {
				k := strings.ToLower(strings.TrimPrefix(t.Target, "req.http."))
				cur, ok := e.Hdrs[k]
				if !ok {
					cur = TVal{T: TS, NotSet: true}
				}
				if t.Op == "=" {
					if val.T == TS && val.NotSet {
						delete(e.Hdrs, k) // assigning a not-set value unsets the header
					} else {
						e.Hdrs[k] = TVal{T: TS, S: strOf(val)}
					}
				} else {
					e.Hdrs[k] = TVal{T: TS, S: strOf(cur) + strOf(val)}
				}
				// every write of a request header is charged to the request workspace (256 KiB, never reclaimed);
				// programs that come near it belong to the limits (C08), not to the semantics
				e.wsBytes += len(k) + len(e.Hdrs[k].S) + 64
				if e.wsBytes > 150000 {
					e.oor("request header writes beyond the workspace the reference models")
					return false
				}
			} else {
				e.Vars[t.Target] = e.assign(e.Vars[t.Target], t.Op, val)
			}
			e.snapshot("set")
		case TUnset:
			delete(e.Hdrs, strings.ToLower(strings.TrimPrefix(t.Target, "req.http.")))
			e.snapshot("unset")
		case TLog:
			line := t.Marker
			if t.Val != nil {
				e.nullText = true
				v := e.Eval(t.Val)
				e.nullText = false
				if v.T == TS && v.NotSet {
					line += "(null)"
				} else {
					line += strOf(v)
				}
			}
			if len(line) > 8000 {
				// Fastly limits a log line (16 KiB, falco enforces it); strings of that size only arise from
				// repeated self-concatenation and belong to the limits (C08), not to the semantics
				e.oor("log line beyond the size the reference models")
				return false
			}
			e.Logs = append(e.Logs, line)
			e.snapshot("log")
		case TIf:
			taken := false
			at := cur + 1
			if truthy(e.Eval(t.Cond)) {
				taken = true
				if !e.ExecAt(t.Then, at) {
					return false
				}
			} else {
				at += Count(t.Then)
				for _, ei := range t.ElseIfs {
					if truthy(e.Eval(ei.Cond)) {
						taken = true
						if !e.ExecAt(ei.Body, at) {
							return false
						}
						break
					}
					at += Count(ei.Body)
				}
			}
			if !taken && t.HasElse {
				at = cur + 1 + Count(t.Then)
				for _, ei := range t.ElseIfs {
					at += Count(ei.Body)
				}
				if !e.ExecAt(t.Else, at) {
					return false
				}
			}
		case TSwitch:
			cv := e.Eval(t.Ctl)
			if cv.T == TS && cv.NotSet {
				// what a not-set control matches is not documented (falco renders it "(null)"): not generated
				e.oor("switch on a not-set control")
				return false
			}
			ctl := strOf(cv)
			start := -1
			for i, c := range t.Cases {
				if c.Default {
					continue
				}
				if c.Regex {
					re, err := regexp.Compile(c.Val)
					if err != nil {
						continue
					}
					if loc := re.FindStringIndex(ctl); loc != nil && loc[0] == loc[1] {
						e.ZeroLenMatch++
					}
					if m := re.FindStringSubmatch(ctl); m != nil {
						// a matching regex case sets the capture groups like the match operator
						e.Group = map[int]TVal{}
						for gi, gs := range m {
							e.Group[gi] = TVal{T: TS, S: gs}
						}
						start = i
						break
					}
				} else if c.Val == ctl {
					start = i
					break
				}
			}
			if start < 0 {
				for i, c := range t.Cases {
					if c.Default {
						start = i
					}
				}
			}
			for i := start; i >= 0 && i < len(t.Cases); i++ {
				at := cur + 1
				for _, c := range t.Cases[:i] {
					at += Count(c.Body)
				}
				if !e.ExecAt(t.Cases[i].Body, at) {
					return false
				}
				if !t.Cases[i].Fallthrough {
					break
				}
			}
		case TCall:
			sub := e.Subs[t.Sub]
			if sub == nil {
				e.oor("missing sub")
				return false
			}
			// arguments are passed by value; the callee has its own locals and capture groups
			saved, savedG := e.Vars, e.Group
			frame := map[string]TVal{}
			for i, p := range sub.Params {
				av := e.Eval(t.Args[i])
				if av.T == TS && av.NotSet {
					// whether a STRING parameter given a not-set argument is not set or empty is not documented: not generated
					e.oor("not-set STRING argument")
				}
				frame[p.Name] = e.assign(TVal{T: p.T}, "=", av)
			}
			for _, l := range sub.Locals {
				frame[l.Name] = zero(l.T)
				if l.T == TS {
					frame[l.Name] = TVal{T: TS, S: ""} // the emitted helper initialises its STRING local to ""
				}
			}
			e.Vars, e.Group = frame, map[int]TVal{}
			e.depth++
			ok := e.Exec(sub.Body)
			e.Returned = false // a bare return only leaves the helper
			e.depth--
			e.Vars, e.Group = saved, savedG
			if !ok {
				return false
			}
			e.snapshot("call")
		}
	}
	return !e.OutOfRange
}

func zero(t TType) TVal {
	if t == TS {
		return TVal{T: TS, NotSet: true}
	}
	return TVal{T: t}
}

// ---- generator -------------------------------------------------------------------------------

type TG struct {
	*G
	env    *Env
	locals []TVar
	hdrs   []string
	marker int
	inSub  bool
	// strictBool: only BOOL-typed leaves (no STRING truthiness)
	strictBool bool
}

var tIntLits = []int64{0, 1, 2, 3, 5, 7, 8, 10, 16, 63, 64, 100, 255, 1000, 4096, 65535, 1000000, -1, -2, -7, -100, -65536}
var tFloatLits = []float64{0, 0.5, 1.5, 2, 2.25, 10, 100.125, 0.001, -0.5, -3.75, 1000.5}
var tStrLits = []string{"", "a", "abc", "foo", "foobar", "Bar", "x y", "a=b", "www.example.com", "/path/index.html", "é", "100", "0", "A1b2", "tic-tac"}
var tRtimeLits = []struct {
	src string
	ms  int64
}{{"0s", 0}, {"1s", 1000}, {"10s", 10000}, {"5m", 300000}, {"2h", 7200000}, {"1d", 86400000}, {"100ms", 100}, {"1.5s", 1500}, {"1ms", 1},
	// every unit with a fractional count (a year is 365 days)
	{"1500ms", 1500}, {"2.5s", 2500}, {"0.25m", 15000}, {"1.5m", 90000}, {"0.5h", 1800000}, {"1.5h", 5400000}, {"0.5d", 43200000}, {"1.5d", 129600000},
	{"2d", 172800000}, {"1y", 31536000000}, {"0.5y", 15768000000}, {"2.25y", 70956000000}}

// literal spellings other than plain decimals
var tFloatExpLits = []struct {
	src string
	v   float64
}{{"1e3", 1000}, {"1.5e2", 150}, {"2e0", 2}, {"2.5e1", 25}}
var tPatterns = []string{"^a", "b$", "foo", "^foo(bar)?$", "[0-9]+", "(a)(b)?c", "^/path/(.*)$", "x.y", "^$", "(tic)-(tac)", "A1", "example\\.com"}

func (g *TG) lit(t TType) TLit {
	r := g.R
	switch t {
	case TI:
		v := tIntLits[r.Intn(len(tIntLits))]
		if v >= 0 && r.Intn(8) == 0 {
			return TLit{V: TVal{T: TI, I: v}, Src: "0x" + strconv.FormatInt(v, 16)}
		}
		return TLit{V: TVal{T: TI, I: v}, Src: strconv.FormatInt(v, 10)}
	case TF:
		if r.Intn(10) == 0 {
			l := tFloatExpLits[r.Intn(len(tFloatExpLits))]
			return TLit{V: TVal{T: TF, F: l.v}, Src: l.src}
		}
		v := tFloatLits[r.Intn(len(tFloatLits))]
		s := strconv.FormatFloat(v, 'f', -1, 64)
		if !strings.Contains(s, ".") {
			s += ".0"
		}
		return TLit{V: TVal{T: TF, F: v}, Src: s}
	case TS:
		v := tStrLits[r.Intn(len(tStrLits))]
		return TLit{V: TVal{T: TS, S: v}, Src: "\"" + v + "\""}
	case TB:
		if r.Intn(2) == 0 {
			return TLit{V: TVal{T: TB, B: true}, Src: "true"}
		}
		return TLit{V: TVal{T: TB, B: false}, Src: "false"}
	default:
		l := tRtimeLits[r.Intn(len(tRtimeLits))]
		return TLit{V: TVal{T: TT, Ms: l.ms}, Src: l.src}
	}
}

func (g *TG) varOf(t TType) (TVar, bool) {
	var c []TVar
	for _, l := range g.locals {
		if l.T == t {
			c = append(c, l)
		}
	}
	if len(c) == 0 {
		return TVar{}, false
	}
	return c[g.R.Intn(len(c))], true
}

// operand: a literal or a local of type t (negative literals are written with unary minus).
func (g *TG) operand(t TType) TExpr {
	if v, ok := g.varOf(t); ok && g.R.Intn(2) == 0 {
		return v
	}
	return g.lit(t)
}

func (g *TG) strAtom() TExpr {
	r := g.R
	switch r.Intn(5) {
	case 0, 1:
		return g.lit(TS)
	case 2:
		if v, ok := g.varOf(TS); ok {
			return v
		}
		return g.lit(TS)
	default:
		if len(g.hdrs) > 0 {
			return THdr{Name: g.hdrs[r.Intn(len(g.hdrs))]}
		}
		return g.lit(TS)
	}
}

func (g *TG) strExpr() TExpr {
	n := 1 + g.R.Intn(3)
	if n == 1 {
		return g.strAtom()
	}
	c := TConcat{}
	for i := 0; i < n; i++ {
		c.Parts = append(c.Parts, g.strAtom())
		c.Explicit = append(c.Explicit, g.R.Intn(2) == 0)
	}
	return c
}

func (g *TG) boolExpr(depth int) TExpr {
	r := g.R
	if depth <= 0 {
		switch r.Intn(7) {
		case 0:
			if v, ok := g.varOf(TB); ok {
				return v
			}
			return g.lit(TB)
		case 1:
			t := []TType{TI, TI, TF, TT}[r.Intn(4)]
			if _, ok := g.varOf(t); !ok {
				t = TI // helper subroutines always have an INTEGER local; a literal on the left is a runtime error
			}
			return TCmp{Op: []string{"==", "!=", "<", ">", "<=", ">="}[r.Intn(6)], L: g.varOrLit(t, true), R: g.operand(t)}
		case 2:
			return TCmp{Op: []string{"==", "!="}[r.Intn(2)], L: g.strLeft(), R: g.strAtom()}
		case 3, 4:
			pat := tPatterns[r.Intn(len(tPatterns))]
			if pat == "^$" && r.Intn(4) != 0 {
				pat = "^a" // zero-length matches hit a known defect of the regex library: keep them rare
			}
			return TRegex{L: g.strLeft(), Pat: pat, Neg: r.Intn(3) == 0}
		case 5:
			// bare STRING truthiness is a condition-only form: not in the value of a BOOL assignment
			if len(g.hdrs) > 0 && !g.strictBool {
				return THdr{Name: g.hdrs[r.Intn(len(g.hdrs))]}
			}
			return g.lit(TB)
		default:
			if v, ok := g.varOf(TS); ok && !g.strictBool {
				return v
			}
			return g.lit(TB)
		}
	}
	switch r.Intn(6) {
	case 0:
		return TNot{X: g.boolAtomForNot(depth - 1)}
	case 1, 2:
		// `&&` binds tighter than `||`: an `||` operand needs parentheses to mean what the IR says
		par := func(x TExpr) TExpr {
			if l, ok := x.(TLogic); ok && l.Op == "||" {
				return TGroup{X: x}
			}
			return x
		}
		return TLogic{Op: "&&", L: par(g.boolExpr(depth - 1)), R: par(g.boolExpr(depth - 1))}
	case 3:
		return TLogic{Op: "||", L: g.boolExpr(depth - 1), R: g.boolExpr(depth - 1)}
	case 4:
		return TGroup{X: g.boolExpr(depth - 1)}
	default:
		return g.boolExpr(0)
	}
}

// `!` binds tighter than comparison: negate a group, a bool local or a header only.
func (g *TG) boolAtomForNot(depth int) TExpr {
	switch g.R.Intn(3) {
	case 0:
		if v, ok := g.varOf(TB); ok {
			return v
		}
	case 1:
		if len(g.hdrs) > 0 && !g.strictBool {
			return THdr{Name: g.hdrs[g.R.Intn(len(g.hdrs))]}
		}
	}
	return TGroup{X: g.boolExpr(depth)}
}

// left side of a comparison: prefer a variable (literal-only comparisons are lint warnings)
func (g *TG) varOrLit(t TType, preferVar bool) TExpr {
	if v, ok := g.varOf(t); ok && (preferVar || g.R.Intn(2) == 0) {
		return v
	}
	return g.lit(t)
}

func (g *TG) strLeft() TExpr {
	if g.R.Intn(2) == 0 && len(g.hdrs) > 0 {
		return THdr{Name: g.hdrs[g.R.Intn(len(g.hdrs))]}
	}
	if v, ok := g.varOf(TS); ok {
		return v
	}
	return THdr{Name: "H0"}
}

var opsFor = map[TType][]string{
	TI: {"=", "=", "+=", "-=", "*=", "/=", "%=", "|=", "&=", "^=", "<<=", ">>=", "rol=", "ror="},
	TF: {"=", "=", "+=", "-=", "*=", "/="},
	TS: {"=", "=", "+="},
	TB: {"=", "&&=", "||="},
	TT: {"=", "+=", "-="},
}

func (g *TG) setStmt() TStmt {
	r := g.R
	if len(g.hdrs) > 0 && r.Intn(4) == 0 {
		h := "req.http." + g.hdrs[r.Intn(len(g.hdrs))]
		if r.Intn(5) == 0 {
			return TUnset{Target: h}
		}
		return TSet{Target: h, T: TS, Header: true, Op: "=", Val: g.strExpr()}
	}
	v := g.locals[r.Intn(len(g.locals))]
	op := opsFor[v.T][r.Intn(len(opsFor[v.T]))]
	var val TExpr
	switch v.T {
	case TS:
		val = g.strExpr()
	case TB:
		// the value of a BOOL assignment: BOOL-typed leaves only, operators only inside parentheses
		g.strictBool = true
		val = g.boolExpr(1)
		g.strictBool = false
		switch val.(type) {
		case TCmp, TRegex, TLogic, TNot:
			val = TGroup{X: val}
		}
	case TI:
		val = g.operand(TI)
		switch op {
		case "<<=", ">>=", "rol=", "ror=":
			val = TLit{V: TVal{T: TI, I: int64(r.Intn(64))}}
			if r.Intn(6) == 0 {
				val = TLit{V: TVal{T: TI, I: []int64{64, 65, 127, 128, 130, 200}[r.Intn(6)]}}
			}
			val = TLit{V: val.(TLit).V, Src: strconv.FormatInt(val.(TLit).V.I, 10)}
			if lv, ok := g.varOf(TI); ok && r.Intn(3) == 0 {
				val = lv
			}
		}
	default:
		val = g.operand(v.T)
	}
	// a variable of ANOTHER numeric type as operand (conversions that are exact under every rounding rule)
	if r.Intn(5) == 0 {
		mixed := map[TType]map[TType][]string{
			TF: {TI: {"=", "+=", "-=", "*="}, TT: {"=", "+=", "-="}},
			TT: {TI: {"=", "+=", "-=", "*="}, TF: {"=", "+=", "-=", "*=", "/="}},
			TI: {TF: {"=", "+=", "-=", "*="}, TT: {"=", "+=", "-="}},
		}
		if m, ok := mixed[v.T]; ok {
			ot := []TType{TI, TF, TT}[r.Intn(3)]
			if ops, ok := m[ot]; ok {
				if ov, ok := g.varOf(ot); ok {
					return TSet{Target: v.Name, T: v.T, Op: ops[r.Intn(len(ops))], Val: ov}
				}
			}
		}
	}
	// unary minus on a variable (it must not change the variable it is applied to)
	if v.T != TS && v.T != TB && (op == "=" || op == "+=" || op == "-=") && r.Intn(6) == 0 {
		if nv, ok := g.varOf(v.T); ok {
			val = TNeg{X: nv}
		}
	}
	return TSet{Target: v.Name, T: v.T, Op: op, Val: val}
}

func (g *TG) logStmt() TStmt {
	g.marker++
	m := fmt.Sprintf("m%d:", g.marker)
	if g.R.Intn(2) == 0 {
		return TLog{Marker: m}
	}
	var val TExpr
	if g.R.Intn(2) == 0 {
		val = g.locals[g.R.Intn(len(g.locals))]
	} else {
		val = g.strAtom()
	}
	return TLog{Marker: m, Val: val}
}

// genStmts generates n statements; each candidate is evaluated on a clone of the reference
// environment and discarded if it leaves the documented range.
func (g *TG) genStmts(n, depth int) []TStmt {
	var out []TStmt
	for len(out) < n {
		var s TStmt
		switch k := g.R.Intn(12); {
		case k < 6:
			s = g.setStmt()
		case k < 8:
			s = g.logStmt()
		case k < 10 && depth > 0:
			s = g.ifStmtT(depth)
		case k == 10 && depth > 0:
			s = g.switchStmtT(depth)
		case k == 11 && !g.inSub && len(g.env.Subs) > 0:
			s = g.callStmt()
		default:
			s = g.setStmt()
		}
		trial := g.env.clone()
		if !trial.Exec([]TStmt{s}) || trial.OutOfRange {
			g.f("discarded-out-of-range")
			continue
		}
		g.env.Exec([]TStmt{s})
		out = append(out, s)
	}
	return out
}

func (e *Env) clone() *Env {
	c := &Env{Vars: map[string]TVal{}, Hdrs: map[string]TVal{}, Group: map[int]TVal{}, Subs: e.Subs, depth: e.depth, Returned: e.Returned, State: e.State}
	for k, v := range e.Vars {
		c.Vars[k] = v
	}
	for k, v := range e.Hdrs {
		c.Hdrs[k] = v
	}
	for k, v := range e.Group {
		c.Group[k] = v
	}
	return c
}

// bodies of branches are generated against a clone (they may or may not execute); to keep every
// EXECUTED statement in range the whole if statement is trial-executed by genStmts afterwards.
func (g *TG) branch(depth int) []TStmt {
	saved := g.env
	g.env = saved.clone()
	b := g.genStmts(1+g.R.Intn(3), depth-1)
	g.env = saved
	if g.R.Intn(8) == 0 {
		b = append(b, g.returnStmt())
	}
	return b
}

func (g *TG) ifStmtT(depth int) TStmt {
	g.f("t-if")
	s := TIf{Cond: g.boolExpr(2), Then: g.branch(depth)}
	for k := g.R.Intn(3); k > 0; k-- {
		s.ElseIfs = append(s.ElseIfs, TElseIf{Kw: []string{"else if", "elseif", "elsif"}[g.R.Intn(3)], Cond: g.boolExpr(1), Body: g.branch(depth)})
	}
	if g.R.Intn(2) == 0 {
		s.HasElse, s.Else = true, g.branch(depth)
	}
	return s
}

func (g *TG) switchStmtT(depth int) TStmt {
	g.f("t-switch")
	s := TSwitch{Ctl: g.strLeft()}
	n := 1 + g.R.Intn(4)
	used := map[string]bool{}
	def := -1
	if g.R.Intn(2) == 0 {
		def = g.R.Intn(n)
	}
	for i := 0; i < n; i++ {
		c := TCase{Body: g.branch(depth)}
		if i == def {
			c.Default = true
		} else if g.R.Intn(3) == 0 {
			c.Regex, c.Val = true, tPatterns[g.R.Intn(len(tPatterns))]
			if c.Val == "^$" && g.R.Intn(4) != 0 {
				c.Val = "^a"
			}
		} else {
			c.Val = tStrLits[g.R.Intn(len(tStrLits))]
		}
		key := fmt.Sprint(c.Regex, c.Val, c.Default)
		if used[key] {
			c.Regex, c.Val = false, fmt.Sprintf("only%d", i)
		}
		used[fmt.Sprint(c.Regex, c.Val, c.Default)] = true
		if i < n-1 && g.R.Intn(3) == 0 {
			c.Fallthrough = true
		}
		s.Cases = append(s.Cases, c)
	}
	return s
}

var tActions = []string{"lookup", "pass", "error", "restart", "upgrade"}

func (g *TG) returnStmt() TStmt {
	g.f("t-return")
	if g.inSub {
		return TReturn{}
	}
	return TReturn{Action: tActions[g.R.Intn(len(tActions))], Paren: g.R.Intn(4) != 0}
}

func (g *TG) callStmt() TStmt {
	g.f("t-call")
	var names []string
	for n := range g.env.Subs {
		names = append(names, n)
	}
	sortStrings(names)
	sub := g.env.Subs[names[g.R.Intn(len(names))]]
	c := TCall{Sub: sub.Name}
	for _, p := range sub.Params {
		// pass variables as often as literals: by-value passing is what C13 checks
		if p.T == TS {
			c.Args = append(c.Args, g.strAtom())
		} else {
			c.Args = append(c.Args, g.operand(p.T))
		}
	}
	return c
}

func sortStrings(s []string) {
	for i := 1; i < len(s); i++ {
		for j := i; j > 0 && s[j] < s[j-1]; j-- {
			s[j], s[j-1] = s[j-1], s[j]
		}
	}
}

// TypedProgram generates a program of about n statements.
func TypedProgram(r *rand.Rand, n int) *TProgram {
	g := &TG{G: New(r, Opts{}), env: NewEnv()}
	p := &TProgram{}
	// helper subroutines (by-value parameters, own locals)
	for k := 0; k < r.Intn(3); k++ {
		sub := &TSub{Name: fmt.Sprintf("helper%d", k)}
		for i, t := range []TType{TI, TS, TF, TB, TT}[:r.Intn(4)] {
			sub.Params = append(sub.Params, TVar{Name: fmt.Sprintf("var.p%d", i), T: t})
		}
		sub.Locals = []TVar{{Name: "var.hl", T: TI}, {Name: "var.hs", T: TS}}
		// generate the body in its own frame
		hg := &TG{G: g.G, env: NewEnv(), inSub: true, hdrs: []string{"H0", "H1"}}
		for _, pv := range sub.Params {
			hg.env.Vars[pv.Name] = zero(pv.T)
			if pv.T == TS {
				hg.env.Vars[pv.Name] = TVal{T: TS, S: "arg"}
			}
		}
		for _, l := range sub.Locals {
			hg.env.Vars[l.Name] = zero(l.T)
			if l.T == TS {
				hg.env.Vars[l.Name] = TVal{T: TS, S: ""}
			}
		}
		hg.locals = append(append([]TVar{}, sub.Params...), sub.Locals...)
		hg.marker = 100 * (k + 1)
		sub.Body = hg.genStmts(2+r.Intn(4), 1)
		p.Subs = append(p.Subs, sub)
		g.env.Subs[sub.Name] = sub
	}
	// locals of the driven subroutine
	counts := map[TType]int{TI: 3, TF: 2, TS: 3, TB: 2, TT: 2}
	for _, t := range []TType{TI, TF, TS, TB, TT} {
		for i := 0; i < counts[t]; i++ {
			p.Locals = append(p.Locals, TVar{Name: fmt.Sprintf("var.%s%d", strings.ToLower(t.String()[:1]), i), T: t})
		}
	}
	g.locals = p.Locals
	g.hdrs = []string{"H0", "H1", "H2"}
	for _, l := range p.Locals {
		g.env.Vars[l.Name] = zero(l.T)
		// every local is initialised explicitly (STRING locals to a set value)
		init := TSet{Target: l.Name, T: l.T, Op: "=", Val: g.lit(l.T)}
		p.Init = append(p.Init, init)
	}
	g.env.Exec(p.Init)
	if r.Intn(2) == 0 {
		h := TSet{Target: "req.http.H0", T: TS, Header: true, Op: "=", Val: g.lit(TS)}
		p.Init = append(p.Init, h)
		g.env.Exec([]TStmt{h})
	}
	p.Body = g.genStmts(n, 2)
	if r.Intn(2) == 0 {
		p.Body = append(p.Body, g.returnStmt())
	}
	p.Features = g.feat
	p.emit(g.G)
	return p
}

// Reference runs the reference evaluator on the whole program.
func (p *TProgram) Reference() *Env {
	e := NewEnv()
	for _, s := range p.Subs {
		e.Subs[s.Name] = s
	}
	for _, l := range p.Locals {
		e.Vars[l.Name] = zero(l.T)
	}
	e.Exec(p.Init)
	e.Trace = nil
	e.Exec(p.Body)
	return e
}

// ReferencePre runs the reference evaluator recording the state before every executed statement.
func (p *TProgram) ReferencePre() *Env {
	e := NewEnv()
	for _, s := range p.Subs {
		e.Subs[s.Name] = s
	}
	for _, l := range p.Locals {
		e.Vars[l.Name] = zero(l.T)
	}
	e.TracePre = true
	all := append(append([]TStmt{}, p.Init...), p.Body...)
	e.ExecAt(all, 0)
	if n := len(p.Body); (n == 0 || !isReturn(p.Body[n-1])) && !e.Returned && !e.OutOfRange {
		e.pre(Count(all), TLog{Marker: "__end"})
		e.Logs = append(e.Logs, "__end")
	}
	return e
}

// ---- token emission --------------------------------------------------------------------------

func (p *TProgram) emit(g *G) {
	g.toks, g.ranges = nil, nil
	g.t("sub", "SubroutineDeclaration#0", true)
	g.t("vcl_recv", "SubroutineDeclaration#1", true)
	g.t("{", "SubroutineDeclaration#2", true)
	g.eol()
	g.t("return", "ReturnStatement#0", true)
	g.t("(", "ReturnStatement#1", true)
	g.t("lookup", "ReturnStatement#2", true)
	g.t(")", "ReturnStatement#3", true)
	g.t(";", "ReturnStatement#4", true)
	g.eol()
	g.t("}", "SubroutineDeclaration#end", true)
	g.eol()
	for _, s := range p.Subs {
		g.t("sub", "SubroutineDeclaration#0", true)
		g.t(s.Name, "SubroutineDeclaration#1", true)
		if len(s.Params) > 0 {
			g.t("(", "SubroutineDeclaration#popen", false)
			for i, pv := range s.Params {
				if i > 0 {
					g.t(",", "SubroutineDeclaration#pcomma", false)
				}
				g.t(pv.T.String(), "SubroutineDeclaration#ptype", false)
				g.t(pv.Name, "SubroutineDeclaration#pname", false)
			}
			g.t(")", "SubroutineDeclaration#pclose", false)
		}
		g.t("{", "SubroutineDeclaration#2", true)
		g.eol()
		for _, l := range s.Locals {
			emitDeclare(g, l)
			if l.T == TS {
				emitStmt(g, TSet{Target: l.Name, T: TS, Op: "=", Val: TLit{V: TVal{T: TS}, Src: "\"\""}})
			}
		}
		emitStmts(g, s.Body)
		g.t("}", "SubroutineDeclaration#end", true)
		g.eol()
	}
	p.MainToks = g.toks
	g.toks, g.ranges = nil, nil
	g.t("sub", "SubroutineDeclaration#0", true)
	g.t("t", "SubroutineDeclaration#1", true)
	g.t("{", "SubroutineDeclaration#2", true)
	g.eol()
	for _, l := range p.Locals {
		emitDeclare(g, l)
	}
	g.pre = nil
	emitStmts(g, p.Init)
	emitStmts(g, p.Body)
	if n := len(p.Body); n == 0 || !isReturn(p.Body[n-1]) {
		emitStmt(g, TLog{Marker: "__end"})
	}
	g.t("}", "SubroutineDeclaration#end", true)
	g.eol()
	p.SubToks, p.Stmts, p.PreTok = g.toks, g.ranges, g.pre
}

func isReturn(s TStmt) bool { _, ok := s.(TReturn); return ok }

func emitDeclare(g *G, l TVar) {
	g.t("declare", "DeclareStatement#0", true)
	g.t("local", "DeclareStatement#1", true)
	g.t(l.Name, "DeclareStatement#2", true)
	g.t(l.T.String(), "DeclareStatement#3", true)
	g.t(";", "DeclareStatement#4", true)
	g.eol()
}

func emitStmts(g *G, ss []TStmt) {
	for _, s := range ss {
		emitStmt(g, s)
	}
}

func emitStmt(g *G, s TStmt) {
	from := len(g.toks)
	g.pre = append(g.pre, from)
	kind := ""
	switch t := s.(type) {
	case TReturn:
		kind = "ReturnStatement"
		g.t("return", "ReturnStatement#0", true)
		switch {
		case t.Action == "":
		case t.Paren:
			g.t("(", "ReturnStatement#1", true)
			g.t(t.Action, "ReturnStatement#2", true)
			g.t(")", "ReturnStatement#3", true)
		default:
			g.t(t.Action, "ReturnStatement#noparen", false)
		}
		g.t(";", "ReturnStatement#4", true)
		g.eol()
	case TSet:
		kind = "SetStatement"
		g.t("set", "SetStatement#0", true)
		g.t(t.Target, "SetStatement#1", true)
		g.t(t.Op, "SetStatement#2", true)
		emitExprSlot(g, t.Val, "SetStatement#3")
		g.t(";", "SetStatement#4", true)
		g.eol()
	case TUnset:
		kind = "UnsetStatement"
		g.t("unset", "UnsetStatement#0", true)
		g.t(t.Target, "UnsetStatement#1", true)
		g.t(";", "UnsetStatement#2", true)
		g.eol()
	case TLog:
		kind = "LogStatement"
		g.t("log", "LogStatement#0", true)
		g.t("\""+t.Marker+"\"", "LogStatement#1", true)
		if t.Val != nil {
			emitExprSlot(g, t.Val, "Infix#juxt")
		}
		g.t(";", "LogStatement#2", true)
		g.eol()
	case TIf:
		kind = "IfStatement"
		g.t("if", "IfStatement#0", true)
		g.t("(", "IfStatement#1", true)
		emitExprSlot(g, t.Cond, "IfStatement#2")
		g.t(")", "IfStatement#3", true)
		g.t("{", "IfStatement#4", true)
		g.eol()
		emitStmts(g, t.Then)
		g.t("}", "Block#close", true)
		for _, ei := range t.ElseIfs {
			if ei.Kw == "else if" {
				g.t("else", "IfStatement#else", true)
				g.t("if", "IfStatement#elseif-if", false)
			} else {
				g.t(ei.Kw, "IfStatement#else", true)
			}
			g.t("(", "IfStatement#a1", true)
			emitExprSlot(g, ei.Cond, "IfStatement#a2")
			g.t(")", "IfStatement#a3", true)
			g.t("{", "IfStatement#a4", true)
			g.eol()
			emitStmts(g, ei.Body)
			g.t("}", "Block#close", true)
		}
		if t.HasElse {
			g.t("else", "IfStatement#else", true)
			g.t("{", "ElseStatement#1", true)
			g.eol()
			emitStmts(g, t.Else)
			g.t("}", "Block#close", true)
		}
		g.eol()
	case TSwitch:
		kind = "SwitchStatement"
		g.t("switch", "SwitchStatement#0", true)
		g.t("(", "SwitchStatement#1", true)
		emitExprSlot(g, t.Ctl, "SwitchStatement#2")
		g.t(")", "SwitchStatement#3", true)
		g.t("{", "SwitchStatement#4", true)
		g.eol()
		for _, c := range t.Cases {
			if c.Default {
				g.t("default", "CaseStatement#0", true)
				g.t(":", "CaseStatement#dcolon", true)
			} else {
				g.t("case", "CaseStatement#0", true)
				if c.Regex {
					g.t("~", "CaseStatement#1", true)
					g.t("\""+c.Val+"\"", "CaseStatement#re", false)
				} else {
					g.t("\""+c.Val+"\"", "CaseStatement#1", true)
				}
				g.t(":", "CaseStatement#2", true)
			}
			g.eol()
			emitStmts(g, c.Body)
			if c.Fallthrough {
				g.t("fallthrough", "FallthroughStatement#0", true)
				g.t(";", "FallthroughStatement#1", true)
			} else {
				g.t("break", "BreakStatement#0", true)
				g.t(";", "BreakStatement#1", true)
			}
			g.eol()
		}
		g.t("}", "SwitchStatement#end", true)
		g.eol()
	case TCall:
		kind = "CallStatement"
		g.t("call", "CallStatement#0", true)
		g.t(t.Sub, "CallStatement#1", true)
		if len(t.Args) > 0 {
			g.t("(", "CallStatement#open", false)
			for i, a := range t.Args {
				if i > 0 {
					g.t(",", "CallStatement#comma", false)
				}
				emitExprSlot(g, a, "CallStatement#arg")
			}
			g.t(")", "CallStatement#close", false)
		}
		g.t(";", "CallStatement#2", true)
		g.eol()
	}
	g.ranges = append(g.ranges, StmtRange{From: from, To: len(g.toks), Kind: kind})
}

func emitExprSlot(g *G, x TExpr, slot string) {
	at := len(g.toks)
	emitExpr(g, x)
	if at < len(g.toks) {
		g.toks[at].Slot, g.toks[at].Doc = slot, true
	}
}

func emitExpr(g *G, x TExpr) {
	switch t := x.(type) {
	case TLit:
		if strings.HasPrefix(t.Src, "-") {
			g.t("-", "Prefix#op", false)
			g.t(t.Src[1:], "Expr#atom", false)
			return
		}
		g.t(t.Src, "Expr#atom", false)
	case TVar:
		g.t(t.Name, "Expr#atom", false)
	case THdr:
		g.t("req.http."+t.Name, "Expr#atom", false)
	case TGroup:
		g.t("(", "Group#open", false)
		emitExpr(g, t.X)
		g.t(")", "Group#close", false)
	case TNeg:
		g.t("-", "Prefix#op", false)
		g.t(t.X.Name, "Expr#atom", false)
	case TConcat:
		for i, p := range t.Parts {
			if i > 0 && t.Explicit[i] {
				g.t("+", "Infix#op", false)
			}
			emitExpr(g, p)
		}
	case TNot:
		g.t("!", "Prefix#op", false)
		emitExpr(g, t.X)
	case TLogic:
		emitExpr(g, t.L)
		g.t(t.Op, "Infix#op", false)
		emitExpr(g, t.R)
	case TCmp:
		emitExpr(g, t.L)
		g.t(t.Op, "Infix#op", false)
		emitExpr(g, t.R)
	case TRegex:
		emitExpr(g, t.L)
		if t.Neg {
			g.t("!~", "Infix#op", false)
		} else {
			g.t("~", "Infix#op", false)
		}
		g.t("\""+t.Pat+"\"", "Expr#atom", false)
	}
}
