// Package gen is the grammar-directed VCL generator (syntactic mode). A generated program is at the
// same time (a) the INTENDED TREE — plain ast.* values built directly by the generator, never by
// falco's parser — and (b) a flat list of tokens with named gaps ("slots") between them, so that
// the same program can be rendered under many layouts and comment decorations (package render).
//
// Operator chains are generated FLAT (operands and operators in source order, no parentheses); the
// intended grouping is computed here by precedence climbing over the table stated in property C02
// (|| < && < ~ !~ < == != < < > <= >= < concatenation < prefix; binary levels left to right), not
// by falco's parser.precedences.
package gen

import (
	"fmt"
	"math/rand"
	"strings"

	"github.com/ysugimoto/falco/v2/ast"
	"github.com/ysugimoto/falco/v2/token"
)

// Tok is one source token. Slot names the gap BEFORE the token: "<NodeKind>#<index>".
type Tok struct {
	S    string `json:"s"`
	Slot string `json:"slot"`
	// Doc is true when docs/parser.md documents the gap before this token as a <comment> placeholder.
	Doc bool `json:"doc,omitempty"`
	// EOLAfter: when a layout puts statements on lines, a newline is preferred after this token.
	EOLAfter bool `json:"eol,omitempty"`
}

// Program is a generated source file.
type Program struct {
	AST  []ast.Statement
	Toks []Tok
	// Tail is the slot after the last token.
	Features map[string]int
	// Stmts: for every top-level declaration, the half-open token range [from,to).
	Decls [][2]int
	// Stmts: every statement inside blocks, innermost last.
	Stmts []StmtRange
}

type Opts struct {
	MaxDepth   int  // expression depth
	Decls      int  // number of top-level declarations
	StmtsPer   int  // statements per block (max)
	NoSubfield bool // avoid req.http.X:sub identifiers
	// StmtOnly generates a statement-only snippet (no declarations).
	StmtOnly bool
	// Functional allows functional subroutines (return type) and parameters.
	Conservative bool // only constructs whose formatter/linter handling is not in question
}

type G struct {
	R      *rand.Rand
	O      Opts
	toks   []Tok
	feat   map[string]int
	lbl    int
	ranges []StmtRange
	pre    []int // typed mode: first-token index of statements in pre-order
}

func New(r *rand.Rand, o Opts) *G {
	if o.MaxDepth == 0 {
		o.MaxDepth = 4
	}
	if o.Decls == 0 {
		o.Decls = 4
	}
	if o.StmtsPer == 0 {
		o.StmtsPer = 5
	}
	return &G{R: r, O: o, feat: map[string]int{}}
}

func (g *G) t(s, slot string, doc bool) { g.toks = append(g.toks, Tok{S: s, Slot: slot, Doc: doc}) }
func (g *G) eol() {
	if len(g.toks) > 0 {
		g.toks[len(g.toks)-1].EOLAfter = true
	}
}
func (g *G) f(name string) { g.feat[name]++ }

func meta(lit string) *ast.Meta { return &ast.Meta{Token: token.Token{Literal: lit}} }

// ---- expressions (IR) ------------------------------------------------------------------------

type Expr interface {
	AST() ast.Expression
	emit(g *G)
	first() string // class of the first token: "ident", "string", "longstring", "if", "other"
}

type Atom struct {
	Src  string
	Node ast.Expression
	Cls  string
}

func (a *Atom) AST() ast.Expression { return a.Node }
func (a *Atom) emit(g *G)           { g.t(a.Src, "Expr#atom", false) }
func (a *Atom) first() string       { return a.Cls }

type Prefix struct {
	Op string
	X  Expr
}

func (p *Prefix) AST() ast.Expression { return &ast.PrefixExpression{Operator: p.Op, Right: p.X.AST()} }
func (p *Prefix) emit(g *G) {
	g.t(p.Op, "Prefix#op", false)
	p.X.emit(g)
}
func (p *Prefix) first() string { return "other" }

type Group struct{ X Expr }

func (p *Group) AST() ast.Expression { return &ast.GroupedExpression{Right: p.X.AST()} }
func (p *Group) emit(g *G) {
	g.t("(", "Group#open", false)
	p.X.emit(g)
	g.t(")", "Group#close", false)
}
func (p *Group) first() string { return "other" }

type Postfix struct{ X Expr }

func (p *Postfix) AST() ast.Expression { return &ast.PostfixExpression{Left: p.X.AST(), Operator: "%"} }
func (p *Postfix) emit(g *G) {
	p.X.emit(g)
	g.t("%", "Postfix#op", false)
}
func (p *Postfix) first() string { return p.X.first() }

type IfExpr struct{ C, T, E Expr }

func (p *IfExpr) AST() ast.Expression {
	return &ast.IfExpression{Condition: p.C.AST(), Consequence: p.T.AST(), Alternative: p.E.AST()}
}
func (p *IfExpr) emit(g *G) {
	g.t("if", "IfExpr#if", false)
	g.t("(", "IfExpr#open", false)
	p.C.emit(g)
	g.t(",", "IfExpr#comma1", false)
	p.T.emit(g)
	g.t(",", "IfExpr#comma2", false)
	p.E.emit(g)
	g.t(")", "IfExpr#close", false)
}
func (p *IfExpr) first() string { return "if" }

type Call struct {
	Name string
	Args []Expr
}

func (p *Call) AST() ast.Expression {
	c := &ast.FunctionCallExpression{Function: &ast.Ident{Value: p.Name}, Arguments: []ast.Expression{}}
	for _, a := range p.Args {
		c.Arguments = append(c.Arguments, a.AST())
	}
	return c
}
func (p *Call) emit(g *G) {
	g.t(p.Name, "Call#name", false)
	g.t("(", "Call#open", false)
	for i, a := range p.Args {
		if i > 0 {
			g.t(",", "Call#comma", false)
		}
		a.emit(g)
	}
	g.t(")", "Call#close", false)
}
func (p *Call) first() string { return "ident" }

// Chain is a flat operator chain: Operands[0] Ops[0] Operands[1] ...; for concatenation Ops[i] is "+"
// and Explicit[i] says whether the "+" is written.
type Chain struct {
	Operands []Expr
	Ops      []string
	Explicit []bool
}

// Level is the precedence table as property C02 states it (higher binds tighter).
func Level(op string) int {
	switch op {
	case "||":
		return 1
	case "&&":
		return 2
	case "~", "!~":
		return 3
	case "==", "!=":
		return 4
	case "<", ">", "<=", ">=":
		return 5
	case "+":
		return 6
	}
	return 0
}

// AST groups the flat chain by precedence climbing; every level is left-associative.
func (c *Chain) AST() ast.Expression {
	pos := 0
	var climb func(min int) ast.Expression
	climb = func(min int) ast.Expression {
		left := c.Operands[pos].AST()
		for pos < len(c.Ops) && Level(c.Ops[pos]) >= min {
			op, ex := c.Ops[pos], c.Explicit[pos]
			pos++
			right := climb(Level(op) + 1)
			left = &ast.InfixExpression{Left: left, Operator: op, Explicit: ex && op == "+", Right: right}
		}
		return left
	}
	return climb(1)
}
func (c *Chain) emit(g *G) {
	for i, o := range c.Operands {
		if i > 0 {
			op := c.Ops[i-1]
			if op != "+" || c.Explicit[i-1] {
				g.t(op, "Infix#op", false)
			}
		}
		o.emit(g)
	}
}
func (c *Chain) first() string { return c.Operands[0].first() }

// ---- literals --------------------------------------------------------------------------------

type strSeg struct{ src, val string }

var strSegs = []strSeg{
	{"a", "a"}, {"abc", "abc"}, {"X-Y", "X-Y"}, {" ", " "}, {"^/(.*)$", "^/(.*)$"}, {"\\1", "\\1"}, {"%41", "A"}, {"%7a", "z"}, {"%25", "%"}, {"%22", "\""}, {"%0A", "\n"},
	{"%u00e9", "é"}, {"%u00E9", "é"}, {"%u{e9}", "é"}, {"%u{1F600}", "😀"}, {"%u{00041}", "A"}, {"é", "é"}, {"日本", "日本"}, {"{", "{"}, {"}", "}"}, {"#", "#"}, {"//", "//"},
	{"/*", "/*"}, {";", ";"}, {"'", "'"}, {"=", "="}, {",", ","}, {"\t", "\t"}, {"0", "0"}, {"%c3%a9", "é"},
	// the edges of the code point ranges in each escape form
	{"%u{10FFFF}", "\U0010FFFF"}, {"%u{10000}", "\U00010000"}, {"%uFFFF", "\uFFFF"}, {"%u{FFFF}", "\uFFFF"}, {"%u0080", "\u0080"}, {"%u07FF", "\u07FF"}, {"%u0800", "\u0800"},
	{"%uD7FF", "\uD7FF"}, {"%uE000", "\uE000"}, {"%u{1}", "\x01"}, {"%7F", "\x7f"}, {"%01", "\x01"},
	{"%C2%80", "\u0080"}, {"%DF%BF", "\u07FF"}, {"%E0%A0%80", "\u0800"}, {"%ED%9F%BF", "\uD7FF"}, {"%EE%80%80", "\uE000"}, {"%EF%BF%BF", "\uFFFF"},
	{"%F0%90%80%80", "\U00010000"}, {"%F3%B0%80%80", "\U000F0000"}, {"%F4%80%80%80", "\U00100000"}, {"%F4%8F%BF%BF", "\U0010FFFF"},
	{"%EF%BF%BD", "\uFFFD"}, {"%uFFFD", "\uFFFD"}, // the replacement character written out is a character like any other
}

func (g *G) String() *Atom {
	r := g.R
	switch r.Intn(8) {
	case 0: // long string: escapes are NOT decoded
		body := ""
		for k := r.Intn(4); k > 0; k-- {
			s := strSegs[r.Intn(len(strSegs))]
			body += s.src
		}
		if r.Intn(3) == 0 {
			body += "\"q\" \n x"
		}
		delim := []string{"", "", "X", "JSON", "a1"}[r.Intn(5)]
		if strings.Contains(body, "\""+delim+"}") {
			delim = "ZZ9"
		}
		g.f("longstring")
		return &Atom{Src: "{" + delim + "\"" + body + "\"" + delim + "}", Cls: "longstring",
			Node: &ast.String{Meta: meta(body), Value: body, LongString: true, Delimiter: delim}}
	default:
		src, val := "", ""
		for k := r.Intn(4); k > 0; k-- {
			s := strSegs[r.Intn(len(strSegs))]
			src += s.src
			val += s.val
		}
		if strings.Contains(src, "%") {
			g.f("escape")
		}
		return &Atom{Src: "\"" + src + "\"", Cls: "string", Node: &ast.String{Meta: meta(src), Value: val}}
	}
}

type intLit struct {
	src string
	val int64
}

var intLits = []intLit{{"0", 0}, {"1", 1}, {"7", 7}, {"10", 10}, {"200", 200}, {"601", 601}, {"0755", 755}, {"007", 7}, {"0x0", 0}, {"0x1f", 31}, {"0X1F", 31}, {"0xff", 255}, {"0x5a5a", 23130},
	{"2147483647", 2147483647}, {"2147483648", 2147483648}, {"4294967296", 4294967296}, {"9223372036854775807", 9223372036854775807}, {"0x7FFFFFFFFFFFFFFF", 9223372036854775807}, {"0x7fffffffffffffff", 9223372036854775807}, {"64", 64}, {"63", 63}}

func (g *G) Int() *Atom {
	l := intLits[g.R.Intn(len(intLits))]
	if l.val > 1<<31 || strings.HasPrefix(strings.ToLower(l.src), "0x") || (len(l.src) > 1 && l.src[0] == '0') {
		g.f("int-boundary")
	}
	return &Atom{Src: l.src, Cls: "other", Node: &ast.Integer{Meta: meta(l.src), Value: l.val}}
}

type floatLit struct {
	src string
	val float64
}

var floatLits = []floatLit{{"1.5", 1.5}, {"0.25", 0.25}, {"10.0", 10}, {"0.0", 0}, {"1e3", 1000}, {"1.5e3", 1500}, {"1e-3", 0.001}, {"1e+3", 1000}, {"2.5e-300", 2.5e-300}, {"1e308", 1e308},
	{"0x1.8p3", 12}, {"0xA.Bp3", 85.5}, {"0x1.8", 1.5}, {"0x1p-2", 0.25}, {"0x1.e", 1.875}, {"0xe.8", 14.5}, {"0xbe.ef", 190.93359375}, {"0x1.ep1", 3.75}, {"123456.789", 123456.789}, {"3.14159", 3.14159}, {"00.5", 0.5}}

func (g *G) Float() *Atom {
	l := floatLits[g.R.Intn(len(floatLits))]
	if strings.ContainsAny(l.src, "epx") {
		g.f("float-exp-hex")
	}
	return &Atom{Src: l.src, Cls: "other", Node: &ast.Float{Meta: meta(l.src), Value: l.val}}
}

var rtimes = []string{"0s", "1s", "10s", "5m", "2h", "1d", "1y", "100ms", "1.5s", "0.5h", "3600s", "1ms"}

func (g *G) RTime() *Atom {
	s := rtimes[g.R.Intn(len(rtimes))]
	return &Atom{Src: s, Cls: "other", Node: &ast.RTime{Meta: meta(s), Value: s}}
}

var idents = []string{"req.http.Host", "req.http.X-Foo", "req.url", "req.url.path", "client.ip", "var.x", "var.str", "var.cnt", "beresp.ttl", "resp.status", "obj.status", "req.restarts", "now",
	"req.http.Cookie:session", "req.http.Accept-Language", "bereq.http.X_y", "server.identity", "fastly_info.state", "tls.client.protocol", "foo", "a", "re.group.1", "table_t", "F_origin", "req.backend.healthy"}

func (g *G) Ident() *Atom {
	s := idents[g.R.Intn(len(idents))]
	if g.O.NoSubfield && strings.Contains(s, ":") {
		s = "req.http.Cookie"
	}
	return &Atom{Src: s, Cls: "ident", Node: &ast.Ident{Value: s}}
}

func (g *G) Bool() *Atom {
	if g.R.Intn(2) == 0 {
		return &Atom{Src: "true", Cls: "other", Node: &ast.Boolean{Value: true}}
	}
	return &Atom{Src: "false", Cls: "other", Node: &ast.Boolean{Value: false}}
}

var funcs = []string{"std.tolower", "regsub", "std.itoa", "digest.hash_md5", "std.strlen", "substr", "time.add", "if_not", "table.lookup", "std.atoi", "my_func"}

// atomExpr: an operand of a chain.
func (g *G) atomExpr(depth int) Expr {
	r := g.R
	if depth <= 0 {
		switch r.Intn(6) {
		case 0, 1:
			return g.Ident()
		case 2, 3:
			return g.String()
		case 4:
			return g.Int()
		default:
			return g.Bool()
		}
	}
	switch r.Intn(16) {
	case 0, 1, 2:
		return g.Ident()
	case 3, 4:
		return g.String()
	case 5:
		return g.Int()
	case 6:
		return g.Float()
	case 7:
		return g.RTime()
	case 8:
		return g.Bool()
	case 9:
		g.f("prefix")
		op := []string{"!", "!", "-"}[r.Intn(3)]
		var x Expr
		switch r.Intn(4) {
		case 0:
			x = g.Ident()
		case 1:
			x = &Group{X: g.Expr(depth - 1)}
			g.f("group")
		case 2:
			x = g.call(depth - 1)
		default:
			if op == "-" {
				if r.Intn(4) == 0 {
					// INT_MIN: 2^63 is accepted only under a unary minus
					g.f("int-min")
					s := []string{"9223372036854775808", "0x8000000000000000"}[r.Intn(2)]
					x = &Atom{Src: s, Cls: "other", Node: &ast.Integer{Meta: meta(s), Value: -9223372036854775808}}
				} else if r.Intn(2) == 0 {
					x = g.Int()
				} else {
					x = g.Float()
				}
			} else {
				x = g.Ident()
			}
		}
		return &Prefix{Op: op, X: x}
	case 10, 11:
		g.f("group")
		return &Group{X: g.Expr(depth - 1)}
	case 12:
		g.f("if-expr")
		return &IfExpr{C: g.Expr(depth - 1), T: g.Expr(depth - 1), E: g.Expr(depth - 1)}
	case 13, 14:
		return g.call(depth - 1)
	default:
		return g.String()
	}
}

func (g *G) call(depth int) Expr {
	g.f("call-expr")
	c := &Call{Name: funcs[g.R.Intn(len(funcs))]}
	for k := g.R.Intn(4); k > 0; k-- {
		c.Args = append(c.Args, g.Expr(depth))
	}
	return c
}

var binOps = []string{"||", "&&", "~", "!~", "==", "!=", "<", ">", "<=", ">=", "+", "+", "+"}

// Expr generates a (possibly flat-chained) expression.
func (g *G) Expr(depth int) Expr {
	r := g.R
	n := 1
	if depth > 0 {
		n = []int{1, 1, 2, 2, 3, 4, 5}[r.Intn(7)]
	}
	if n == 1 {
		return g.atomExpr(depth)
	}
	c := &Chain{}
	for i := 0; i < n; i++ {
		c.Operands = append(c.Operands, g.atomExpr(depth-1))
		if i == n-1 {
			break
		}
		// choose an operator such that two operators of one comparison level never chain
		// (the property states no associativity for them): they must be separated by a looser one
		for try := 0; ; try++ {
			op := binOps[r.Intn(len(binOps))]
			if try > 20 {
				op = "&&"
			}
			lv := Level(op)
			ok := true
			if lv >= 3 && lv <= 5 {
				for j := len(c.Ops) - 1; j >= 0; j-- {
					lj := Level(c.Ops[j])
					if lj < lv {
						break
					}
					if lj == lv {
						ok = false
						break
					}
				}
			}
			if ok {
				c.Ops = append(c.Ops, op)
				c.Explicit = append(c.Explicit, true)
				break
			}
		}
	}
	// juxtaposed concatenation is possible when the right operand starts with STRING / IDENT / if / long string
	for i, op := range c.Ops {
		if op == "+" {
			switch c.Operands[i+1].first() {
			case "ident", "string", "longstring", "if":
				if r.Intn(2) == 0 {
					c.Explicit[i] = false
					g.f("juxtaposed-concat")
				}
			}
		}
	}
	if len(c.Ops) >= 2 {
		g.f("chain>=3")
	}
	return c
}

// ---- statements ------------------------------------------------------------------------------

var assignOps = []string{"=", "=", "=", "+=", "-=", "*=", "/=", "%=", "|=", "&=", "^=", "<<=", ">>=", "rol=", "ror=", "&&=", "||="}
var lvalues = []string{"req.http.X-Foo", "var.x", "var.cnt", "beresp.ttl", "resp.http.Set-Cookie", "req.http.Cookie:session", "obj.status", "req.url", "bereq.http.Host", "resp.http.X_a-b"}

func (g *G) lvalue() string {
	s := lvalues[g.R.Intn(len(lvalues))]
	if g.O.NoSubfield && strings.Contains(s, ":") {
		s = "req.http.Cookie"
	}
	return s
}

// StmtRange locates one statement (at any nesting depth) in the token list.
type StmtRange struct {
	From, To int
	Kind     string
}

// Stmt generates one statement and records its token range.
func (g *G) Stmt(depth int, inSwitch bool) ast.Statement {
	from := len(g.toks)
	st := g.stmt0(depth, inSwitch)
	g.ranges = append(g.ranges, StmtRange{From: from, To: len(g.toks), Kind: strings.TrimPrefix(fmt.Sprintf("%T", st), "*ast.")})
	return st
}

func (g *G) stmt0(depth int, inSwitch bool) ast.Statement {
	r := g.R
	n := 22
	if depth <= 0 {
		n = 17 // no nested blocks
	}
	switch r.Intn(n) {
	case 0, 1, 2:
		g.f("set")
		id, op := g.lvalue(), assignOps[r.Intn(len(assignOps))]
		v := g.Expr(g.O.MaxDepth)
		g.t("set", "SetStatement#0", true)
		g.t(id, "SetStatement#1", true)
		g.t(op, "SetStatement#2", true)
		v2 := g.emitExpr(v, "SetStatement#3", true)
		g.t(";", "SetStatement#4", true)
		g.eol()
		return &ast.SetStatement{Ident: &ast.Ident{Value: id}, Operator: &ast.Operator{Operator: op}, Value: v2}
	case 3:
		g.f("add")
		id := g.lvalue()
		v := g.Expr(2)
		g.t("add", "AddStatement#0", true)
		g.t(id, "AddStatement#1", true)
		g.t("=", "AddStatement#2", true)
		v2 := g.emitExpr(v, "AddStatement#3", true)
		g.t(";", "AddStatement#4", true)
		g.eol()
		return &ast.AddStatement{Ident: &ast.Ident{Value: id}, Operator: &ast.Operator{Operator: "="}, Value: v2}
	case 4:
		g.f("unset")
		id := []string{"req.http.X-Foo", "req.http.X-*", "resp.http.Set-Cookie", "req.http.Cookie:session", "bereq.http.A"}[r.Intn(5)]
		if g.O.NoSubfield && strings.Contains(id, ":") {
			id = "req.http.Cookie"
		}
		g.t("unset", "UnsetStatement#0", true)
		g.t(id, "UnsetStatement#1", true)
		g.t(";", "UnsetStatement#2", true)
		g.eol()
		return &ast.UnsetStatement{Ident: &ast.Ident{Value: id}}
	case 5:
		g.f("remove")
		id := []string{"req.http.X-Foo", "resp.http.Server"}[r.Intn(2)]
		g.t("remove", "RemoveStatement#0", true)
		g.t(id, "RemoveStatement#1", true)
		g.t(";", "RemoveStatement#2", true)
		g.eol()
		return &ast.RemoveStatement{Ident: &ast.Ident{Value: id}}
	case 6:
		g.f("declare")
		name := fmt.Sprintf("var.v%d", r.Intn(50))
		typ := []string{"STRING", "INTEGER", "FLOAT", "BOOL", "RTIME", "TIME", "IP"}[r.Intn(7)]
		g.t("declare", "DeclareStatement#0", true)
		g.t("local", "DeclareStatement#1", true)
		g.t(name, "DeclareStatement#2", true)
		g.t(typ, "DeclareStatement#3", true)
		st := &ast.DeclareStatement{Name: &ast.Ident{Value: name}, ValueType: &ast.Ident{Value: typ}}
		if !g.O.Conservative && r.Intn(4) == 0 {
			g.f("declare-init")
			g.t("=", "DeclareStatement#init", false)
			st.Value = g.emitExpr(g.Expr(1), "DeclareStatement#initv", false)
		}
		g.t(";", "DeclareStatement#4", true)
		g.eol()
		return st
	case 7:
		g.f("call")
		name := []string{"helper", "my_sub", "f2"}[r.Intn(3)]
		g.t("call", "CallStatement#0", true)
		g.t(name, "CallStatement#1", true)
		st := &ast.CallStatement{Subroutine: &ast.Ident{Value: name}}
		if k := r.Intn(4); k > 0 {
			g.f("call-args")
			g.t("(", "CallStatement#open", false)
			for i := 0; i < k-1; i++ {
				if i > 0 {
					g.t(",", "CallStatement#comma", false)
				}
				st.Arguments = append(st.Arguments, g.emitExpr(g.Expr(1), "CallStatement#arg", false))
			}
			g.t(")", "CallStatement#close", false)
		}
		g.t(";", "CallStatement#2", true)
		g.eol()
		return st
	case 8:
		g.f("error")
		g.t("error", "ErrorStatement#0", true)
		st := &ast.ErrorStatement{}
		switch r.Intn(6) {
		case 0:
			if !g.O.Conservative {
				g.f("error-bare") // error;
				break
			}
			fallthrough
		case 1, 2:
			a := g.Int()
			a.emitSlot(g, "ErrorStatement#1", true)
			st.Code = a.Node
		case 3:
			a := g.Ident()
			a.emitSlot(g, "ErrorStatement#1", true)
			st.Code = a.Node
		default:
			a := g.Int()
			a.emitSlot(g, "ErrorStatement#1", true)
			st.Code = a.Node
			st.Argument = g.emitExpr(g.Expr(1), "ErrorStatement#2", true)
		}
		g.t(";", "ErrorStatement#3", true)
		g.eol()
		return st
	case 9:
		g.f("esi")
		g.t("esi", "EsiStatement#0", true)
		g.t(";", "EsiStatement#1", true)
		g.eol()
		return &ast.EsiStatement{}
	case 10:
		g.f("log")
		g.t("log", "LogStatement#0", true)
		v := g.emitExpr(g.Expr(2), "LogStatement#1", true)
		g.t(";", "LogStatement#2", true)
		g.eol()
		return &ast.LogStatement{Value: v}
	case 11:
		g.f("restart")
		g.t("restart", "RestartStatement#0", true)
		g.t(";", "RestartStatement#1", true)
		g.eol()
		return &ast.RestartStatement{}
	case 12:
		g.f("return")
		g.t("return", "ReturnStatement#0", true)
		st := &ast.ReturnStatement{}
		switch r.Intn(4) {
		case 0: // return;
		case 1, 2:
			act := []string{"lookup", "pass", "deliver", "fetch", "hash", "error", "restart", "deliver_stale", "hit_for_pass"}[r.Intn(9)]
			st.HasParenthesis = true
			st.ReturnExpression = &ast.Ident{Value: act}
			g.t("(", "ReturnStatement#1", true)
			g.t(act, "ReturnStatement#2", true)
			g.t(")", "ReturnStatement#3", true)
		default:
			act := []string{"lookup", "pass", "deliver"}[r.Intn(3)]
			st.ReturnExpression = &ast.Ident{Value: act}
			g.t(act, "ReturnStatement#noparen", false)
		}
		g.t(";", "ReturnStatement#4", true)
		g.eol()
		return st
	case 13:
		g.f("synthetic")
		kw := "synthetic"
		if r.Intn(3) == 0 {
			kw = "synthetic.base64"
		}
		g.t(kw, "SyntheticStatement#0", true)
		v := g.emitExpr(g.Expr(1), "SyntheticStatement#1", true)
		g.t(";", "SyntheticStatement#2", true)
		g.eol()
		if kw == "synthetic" {
			return &ast.SyntheticStatement{Value: v}
		}
		return &ast.SyntheticBase64Statement{Value: v}
	case 14:
		g.f("goto")
		g.lbl++
		name := fmt.Sprintf("lbl%d", g.lbl)
		g.t("goto", "GotoStatement#0", true)
		g.t(name, "GotoStatement#1", true)
		g.t(";", "GotoStatement#2", true)
		g.eol()
		return &ast.GotoStatement{Destination: &ast.Ident{Value: name}}
	case 15:
		g.f("goto-dest")
		g.lbl++
		name := fmt.Sprintf("lbl%d:", g.lbl)
		g.t(name, "GotoDestinationStatement#0", true)
		g.eol()
		return &ast.GotoDestinationStatement{Name: &ast.Ident{Value: name}}
	case 16:
		g.f("funcall-stmt")
		name := []string{"std.collect", "h2.push", "testing.call", "my.fn"}[r.Intn(4)]
		st := &ast.FunctionCallStatement{Function: &ast.Ident{Value: name}, Arguments: []ast.Expression{}}
		g.t(name, "FunctionCallStatement#0", true)
		g.t("(", "FunctionCallStatement#open", false)
		for i, k := 0, r.Intn(3); i < k; i++ {
			if i > 0 {
				g.t(",", "FunctionCallStatement#comma", true)
			}
			st.Arguments = append(st.Arguments, g.emitExpr(g.Expr(1), "FunctionCallStatement#arg", true))
		}
		g.t(")", "FunctionCallStatement#close", true)
		g.t(";", "FunctionCallStatement#1", true)
		g.eol()
		return st
	case 17, 18:
		return g.ifStmt(depth)
	case 19:
		if inSwitch {
			return g.Stmt(0, inSwitch)
		}
		return g.switchStmt(depth)
	default:
		g.f("block")
		g.t("{", "BlockStatement#0", true)
		g.eol()
		b := g.stmts(depth-1, "BlockStatement#end")
		g.t("}", "BlockStatement#end", true)
		g.eol()
		return b
	}
}

func (a *Atom) emitSlot(g *G, slot string, doc bool) { g.t(a.Src, slot, doc) }

// emitExpr emits the expression with the gap before its first token named by slot.
func (g *G) emitExpr(e Expr, slot string, doc bool) ast.Expression {
	at := len(g.toks)
	e.emit(g)
	if at < len(g.toks) {
		g.toks[at].Slot, g.toks[at].Doc = slot, doc
	}
	return e.AST()
}

func (g *G) stmts(depth int, endSlot string) *ast.BlockStatement {
	b := &ast.BlockStatement{Statements: []ast.Statement{}}
	for k := g.R.Intn(g.O.StmtsPer + 1); k > 0; k-- {
		b.Statements = append(b.Statements, g.Stmt(depth, false))
	}
	return b
}

func (g *G) block(depth int, openSlot string, doc bool) *ast.BlockStatement {
	g.t("{", openSlot, doc)
	g.eol()
	b := g.stmts(depth, "")
	g.t("}", "Block#close", true)
	return b
}

func (g *G) ifStmt(depth int) ast.Statement {
	r := g.R
	g.f("if")
	st := &ast.IfStatement{Keyword: "if", Another: []*ast.IfStatement{}}
	g.t("if", "IfStatement#0", true)
	g.t("(", "IfStatement#1", true)
	st.Condition = g.emitExpr(g.Expr(g.O.MaxDepth), "IfStatement#2", true)
	g.t(")", "IfStatement#3", true)
	st.Consequence = g.block(depth-1, "IfStatement#4", true)
	for k := r.Intn(3); k > 0; k-- {
		kw := []string{"else if", "elseif", "elsif"}[r.Intn(3)]
		g.f("else-if:" + kw)
		a := &ast.IfStatement{Keyword: kw, Another: nil}
		if kw == "else if" {
			g.t("else", "IfStatement#else", true)
			g.t("if", "IfStatement#elseif-if", false)
		} else {
			g.t(kw, "IfStatement#else", true)
		}
		g.t("(", "IfStatement#a1", true)
		a.Condition = g.emitExpr(g.Expr(2), "IfStatement#a2", true)
		g.t(")", "IfStatement#a3", true)
		a.Consequence = g.block(depth-1, "IfStatement#a4", true)
		st.Another = append(st.Another, a)
	}
	if r.Intn(2) == 0 {
		g.f("else")
		g.t("else", "IfStatement#else", true)
		st.Alternative = &ast.ElseStatement{Consequence: g.block(depth-1, "ElseStatement#1", true)}
	}
	g.eol()
	return st
}

func (g *G) switchStmt(depth int) ast.Statement {
	r := g.R
	g.f("switch")
	st := &ast.SwitchStatement{Default: -1}
	g.t("switch", "SwitchStatement#0", true)
	g.t("(", "SwitchStatement#1", true)
	ctl := &ast.SwitchControl{}
	switch r.Intn(4) {
	case 3:
		// a control built by concatenation (string first: juxtaposition or explicit +)
		k1 := &Atom{Src: "\"k\"", Cls: "string", Node: &ast.String{Meta: meta("k"), Value: "k"}}
		var second Expr = &Atom{Src: "\"v\"", Cls: "string", Node: &ast.String{Meta: meta("v"), Value: "v"}}
		if r.Intn(2) == 0 {
			second = g.Ident()
		}
		c := &Chain{Operands: []Expr{k1, second}, Ops: []string{"+"}, Explicit: []bool{r.Intn(2) == 0}}
		ctl.Expression = g.emitExpr(c, "SwitchStatement#2", true)
	case 0:
		a := g.Ident()
		a.emitSlot(g, "SwitchStatement#2", true)
		ctl.Expression = a.Node
	case 1:
		c := &Call{Name: "std.tolower", Args: []Expr{g.Ident()}}
		ctl.Expression = g.emitExpr(c, "SwitchStatement#2", true)
	default:
		a := &Atom{Src: "\"k\"", Cls: "string", Node: &ast.String{Meta: meta("k"), Value: "k"}}
		a.emitSlot(g, "SwitchStatement#2", true)
		ctl.Expression = a.Node
	}
	st.Control = ctl
	g.t(")", "SwitchStatement#3", true)
	g.t("{", "SwitchStatement#4", true)
	g.eol()
	n := 1 + r.Intn(4)
	used := map[string]bool{}
	defAt := -1
	if r.Intn(2) == 0 {
		defAt = r.Intn(n)
	}
	for i := 0; i < n; i++ {
		cs := &ast.CaseStatement{Statements: []ast.Statement{}}
		if i == defAt {
			g.f("default")
			st.Default = i
			g.t("default", "CaseStatement#0", true)
			g.t(":", "CaseStatement#dcolon", true)
		} else {
			g.t("case", "CaseStatement#0", true)
			// the same literal may appear under the other operator (`case "x":` and `case ~ "x":`),
			// never twice under one operator (the parser rejects duplicate labels)
			op := "=="
			if r.Intn(3) == 0 {
				op = "~"
			}
			val := fmt.Sprintf("c%d", r.Intn(i+1))
			for used[op+val] {
				val = fmt.Sprintf("c%d", i)
				if used[op+val] {
					val += "x"
				}
			}
			used[op+val] = true
			if op == "~" {
				g.f("case-regex")
				g.t("~", "CaseStatement#1", true)
				g.t("\""+val+"\"", "CaseStatement#re", false)
			} else {
				g.t("\""+val+"\"", "CaseStatement#1", true)
			}
			cs.Test = &ast.InfixExpression{Operator: op, Right: &ast.String{Meta: meta(val), Value: val}}
			g.t(":", "CaseStatement#2", true)
		}
		g.eol()
		for k := r.Intn(3); k > 0; k-- {
			cs.Statements = append(cs.Statements, g.Stmt(depth-1, true))
		}
		if i < n-1 && r.Intn(3) == 0 {
			g.f("fallthrough")
			cs.Fallthrough = true
			g.t("fallthrough", "FallthroughStatement#0", true)
			g.t(";", "FallthroughStatement#1", true)
			cs.Statements = append(cs.Statements, &ast.FallthroughStatement{})
		} else {
			g.t("break", "BreakStatement#0", true)
			g.t(";", "BreakStatement#1", true)
			cs.Statements = append(cs.Statements, &ast.BreakStatement{})
		}
		g.eol()
		st.Cases = append(st.Cases, cs)
	}
	g.t("}", "SwitchStatement#end", true)
	g.eol()
	return st
}

// ---- declarations ----------------------------------------------------------------------------

func (g *G) Decl(i int) ast.Statement {
	r := g.R
	switch r.Intn(14) {
	case 0:
		g.f("acl")
		name := fmt.Sprintf("acl_%d", i)
		d := &ast.AclDeclaration{Name: &ast.Ident{Value: name}, CIDRs: []*ast.AclCidr{}}
		g.t("acl", "AclDeclaration#0", true)
		g.t(name, "AclDeclaration#1", true)
		g.t("{", "AclDeclaration#2", true)
		g.eol()
		for k := r.Intn(5); k > 0; k-- {
			c := &ast.AclCidr{}
			first := true
			slot := func(s string) (string, bool) {
				if first {
					first = false
					return "AclCidr#0", true
				}
				return s, true
			}
			if r.Intn(3) == 0 {
				g.f("acl-negated")
				c.Inverse = &ast.Boolean{Value: true}
				s, dc := slot("")
				g.t("!", s, dc)
			}
			ip := []string{"192.168.0.1", "10.0.0.0", "2001:db8::", "::1", "172.16.0.0"}[r.Intn(5)]
			c.IP = &ast.IP{Value: ip}
			s, dc := slot("AclCidr#ip")
			g.t("\""+ip+"\"", s, dc)
			if r.Intn(2) == 0 {
				m := []int64{0, 8, 16, 24, 32, 64, 128}[r.Intn(7)]
				c.Mask = &ast.Integer{Meta: meta(fmt.Sprint(m)), Value: m}
				g.t("/", "AclCidr#slash", false)
				g.t(fmt.Sprint(m), "AclCidr#mask", false)
			}
			g.t(";", "AclCidr#semi", true)
			g.eol()
			d.CIDRs = append(d.CIDRs, c)
		}
		g.t("}", "AclDeclaration#end", true)
		g.eol()
		return d
	case 1, 2:
		g.f("backend")
		name := fmt.Sprintf("F_origin_%d", i)
		d := &ast.BackendDeclaration{Name: &ast.Ident{Value: name}, Properties: []*ast.BackendProperty{}}
		g.t("backend", "BackendDeclaration#0", true)
		g.t(name, "BackendDeclaration#1", true)
		g.t("{", "BackendDeclaration#2", true)
		g.eol()
		d.Properties = g.backendProps(true)
		g.t("}", "BackendDeclaration#end", true)
		g.eol()
		return d
	case 3:
		g.f("director")
		name := fmt.Sprintf("dir_%d", i)
		typ := []string{"random", "fallback", "hash", "client", "chash"}[r.Intn(5)]
		d := &ast.DirectorDeclaration{Name: &ast.Ident{Value: name}, DirectorType: &ast.Ident{Value: typ}, Properties: []ast.Expression{}}
		g.t("director", "DirectorDeclaration#0", true)
		g.t(name, "DirectorDeclaration#1", true)
		g.t(typ, "DirectorDeclaration#2", true)
		g.t("{", "DirectorDeclaration#3", true)
		g.eol()
		// scalar properties and backend objects in any order (a scalar may follow a backend object)
		nScalar, nObj := r.Intn(3), r.Intn(3)
		var order []bool // true = scalar
		for k := 0; k < nScalar; k++ {
			order = append(order, true)
		}
		for k := 0; k < nObj; k++ {
			order = append(order, false)
		}
		if r.Intn(2) == 0 {
			r.Shuffle(len(order), func(a, b int) { order[a], order[b] = order[b], order[a] })
		}
		for _, scalar := range order {
			if !scalar {
				o := &ast.DirectorBackendObject{Values: []*ast.DirectorProperty{}}
				g.t("{", "DirectorBackendObject#0", true)
				for _, key := range []string{"backend", "weight"}[:1+r.Intn(2)] {
					p := &ast.DirectorProperty{Key: &ast.Ident{Value: key}}
					g.t(".", "DirectorBackendObject#dot", true)
					g.t(key, "DirectorBackendObject#key", false)
					g.t("=", "DirectorBackendObject#1", true)
					if key == "backend" {
						a := &Atom{Src: "F_origin_0", Cls: "ident", Node: &ast.Ident{Value: "F_origin_0"}}
						p.Value = g.emitExpr(a, "DirectorBackendObject#2", true)
					} else {
						p.Value = g.emitExpr(g.Int(), "DirectorBackendObject#2", true)
					}
					g.t(";", "DirectorBackendObject#3", true)
					o.Values = append(o.Values, p)
				}
				g.t("}", "DirectorBackendObject#end", true)
				g.eol()
				d.Properties = append(d.Properties, o)
				continue
			}
			key := []string{"quorum", "retries", "key"}[r.Intn(3)]
			p := &ast.DirectorProperty{Key: &ast.Ident{Value: key}}
			g.t(".", "DirectorProperty#0", true)
			g.t(key, "DirectorProperty#key", false)
			g.t("=", "DirectorProperty#1", true)
			switch key {
			case "quorum":
				g.f("postfix-percent")
				a := g.Int()
				p.Value = g.emitExpr(&Postfix{X: a}, "DirectorProperty#2", true)
			case "retries":
				p.Value = g.emitExpr(g.Int(), "DirectorProperty#2", true)
			default:
				a := &Atom{Src: "object", Cls: "ident", Node: &ast.Ident{Value: "object"}}
				p.Value = g.emitExpr(a, "DirectorProperty#2", true)
			}
			g.t(";", "DirectorProperty#3", true)
			g.eol()
			d.Properties = append(d.Properties, p)
		}
		g.t("}", "DirectorDeclaration#end", true)
		g.eol()
		return d
	case 4, 5:
		g.f("table")
		name := fmt.Sprintf("tbl_%d", i)
		d := &ast.TableDeclaration{Name: &ast.Ident{Value: name}, Properties: []*ast.TableProperty{}}
		g.t("table", "TableDeclaration#0", true)
		g.t(name, "TableDeclaration#1", true)
		typ := []string{"", "STRING", "BOOL", "INTEGER", "FLOAT", "RTIME", "BACKEND", "ACL", "IP"}[r.Intn(9)]
		if typ != "" {
			d.ValueType = &ast.Ident{Value: typ}
			g.t(typ, "TableDeclaration#2", true)
		}
		g.t("{", "TableDeclaration#3", true)
		g.eol()
		n := r.Intn(5)
		for k := 0; k < n; k++ {
			p := &ast.TableProperty{}
			key := g.String()
			for key.Cls != "string" {
				key = g.String()
			}
			ks := key.Node.(*ast.String)
			ks.Value = fmt.Sprintf("%d", k) + ks.Value
			ks.Meta = meta(fmt.Sprintf("%d", k) + ks.Meta.Token.Literal)
			p.Key = ks
			g.t("\""+ks.Meta.Token.Literal+"\"", "TableProperty#0", true)
			g.t(":", "TableProperty#1", true)
			var v *Atom
			switch typ {
			case "BOOL":
				v = g.Bool()
			case "INTEGER":
				v = g.Int()
			case "FLOAT":
				v = g.Float()
			case "RTIME":
				v = g.RTime()
			case "BACKEND", "ACL":
				v = &Atom{Src: "F_origin_0", Cls: "ident", Node: &ast.Ident{Value: "F_origin_0"}}
			default:
				v = g.String()
			}
			p.Value = v.Node
			g.t(v.Src, "TableProperty#2", true)
			if k < n-1 || r.Intn(2) == 0 {
				p.HasComma = true
				g.t(",", "TableProperty#3", true)
			}
			g.eol()
			d.Properties = append(d.Properties, p)
		}
		g.t("}", "TableDeclaration#end", n == 0)
		g.eol()
		return d
	case 6:
		g.f("penaltybox")
		name := fmt.Sprintf("pb_%d", i)
		g.t("penaltybox", "PenaltyboxDeclaration#0", true)
		g.t(name, "PenaltyboxDeclaration#1", true)
		g.t("{", "PenaltyboxDeclaration#2", true)
		g.t("}", "PenaltyboxDeclaration#3", true)
		g.eol()
		return &ast.PenaltyboxDeclaration{Name: &ast.Ident{Value: name}, Block: &ast.BlockStatement{Statements: []ast.Statement{}}}
	case 7:
		g.f("ratecounter")
		name := fmt.Sprintf("rc_%d", i)
		g.t("ratecounter", "RatecounterDeclaration#0", true)
		g.t(name, "RatecounterDeclaration#1", true)
		g.t("{", "RatecounterDeclaration#2", true)
		g.t("}", "RatecounterDeclaration#3", true)
		g.eol()
		return &ast.RatecounterDeclaration{Name: &ast.Ident{Value: name}, Block: &ast.BlockStatement{Statements: []ast.Statement{}}}
	case 8:
		if r.Intn(2) == 0 {
			g.f("import")
			g.t("import", "ImportStatement#0", true)
			g.t("foo", "ImportStatement#1", true)
			g.t(";", "ImportStatement#2", true)
			g.eol()
			return &ast.ImportStatement{Name: &ast.Ident{Value: "foo"}}
		}
		g.f("include")
		mod := fmt.Sprintf("mod_%d", i)
		g.t("include", "IncludeStatement#0", true)
		g.t("\""+mod+"\"", "IncludeStatement#1", true)
		g.t(";", "IncludeStatement#2", true)
		g.eol()
		return &ast.IncludeStatement{Module: &ast.String{Meta: meta(mod), Value: mod}}
	default:
		return g.sub(i)
	}
}

func (g *G) backendProps(allowProbe bool) []*ast.BackendProperty {
	r := g.R
	var out []*ast.BackendProperty
	keys := []string{"host", "port", "ssl", "connect_timeout", "max_connections", "first_byte_timeout", "share_key", "ssl_sni_hostname", "always_use_host_header", "probe"}
	for k := r.Intn(5); k > 0; k-- {
		key := keys[r.Intn(len(keys))]
		if key == "probe" && !allowProbe {
			key = "host"
		}
		p := &ast.BackendProperty{Key: &ast.Ident{Value: key}}
		g.t(".", "BackendProperty#0", true)
		g.t(key, "BackendProperty#key", false)
		g.t("=", "BackendProperty#1", true)
		if key == "probe" {
			g.f("probe")
			o := &ast.BackendProbeObject{}
			g.t("{", "BackendProperty#2", true)
			g.eol()
			o.Values = g.backendProps(false)
			g.t("}", "BackendProbeObject#end", true)
			g.eol()
			p.Value = o
			out = append(out, p)
			continue
		}
		var v Expr
		switch key {
		case "ssl", "always_use_host_header":
			v = g.Bool()
		case "connect_timeout", "first_byte_timeout":
			v = g.RTime()
		case "max_connections":
			v = g.Int()
		default:
			v = g.String()
			if r.Intn(4) == 0 {
				v = &Chain{Operands: []Expr{g.String(), g.String()}, Ops: []string{"+"}, Explicit: []bool{false}}
			}
		}
		p.Value = g.emitExpr(v, "BackendProperty#2", true)
		g.t(";", "BackendProperty#3", true)
		g.eol()
		out = append(out, p)
	}
	return out
}

var subNames = []string{"vcl_recv", "vcl_hash", "vcl_hit", "vcl_miss", "vcl_pass", "vcl_fetch", "vcl_error", "vcl_deliver", "vcl_log"}

func (g *G) sub(i int) ast.Statement {
	r := g.R
	g.f("sub")
	name := fmt.Sprintf("my_sub_%d", i)
	if r.Intn(2) == 0 {
		name = subNames[r.Intn(len(subNames))]
	}
	d := &ast.SubroutineDeclaration{Name: &ast.Ident{Value: name}}
	g.t("sub", "SubroutineDeclaration#0", true)
	g.t(name, "SubroutineDeclaration#1", true)
	functional := !strings.HasPrefix(name, "vcl_") && !g.O.Conservative && r.Intn(3) == 0
	// parameters also on plain (non-functional) user subroutines
	if (functional && r.Intn(2) == 0) || (!functional && !strings.HasPrefix(name, "vcl_") && !g.O.Conservative && r.Intn(4) == 0) {
		g.f("sub-params")
		g.t("(", "SubroutineDeclaration#popen", false)
		for k, n := 0, r.Intn(3); k < n; k++ {
			if k > 0 {
				g.t(",", "SubroutineDeclaration#pcomma", false)
			}
			typ := []string{"STRING", "INTEGER", "BOOL", "FLOAT", "IP", "RTIME", "TIME"}[r.Intn(7)]
			pn := fmt.Sprintf("var.p%d", k)
			g.t(typ, "SubroutineDeclaration#ptype", false)
			g.t(pn, "SubroutineDeclaration#pname", false)
			d.Parameters = append(d.Parameters, &ast.SubroutineParameter{Type: &ast.Ident{Value: typ}, Name: &ast.Ident{Value: pn}})
		}
		g.t(")", "SubroutineDeclaration#pclose", false)
	}
	if functional {
		g.f("sub-functional")
		typ := []string{"STRING", "INTEGER", "BOOL", "FLOAT"}[r.Intn(4)]
		d.ReturnType = &ast.Ident{Value: typ}
		g.t(typ, "SubroutineDeclaration#rtype", false)
	}
	g.t("{", "SubroutineDeclaration#2", true)
	g.eol()
	d.Block = g.stmts(2, "")
	if functional {
		// a value-returning return statement without parentheses
		g.f("return-value")
		rfrom := len(g.toks)
		g.t("return", "ReturnStatement#0", true)
		e := g.Expr(2)
		for e.first() == "other" {
			// must not start with "(" (it would be read as the optional parenthesis of return)
			e = g.Expr(2)
		}
		v := g.emitExpr(e, "ReturnStatement#value", false)
		g.t(";", "ReturnStatement#4", true)
		g.eol()
		g.ranges = append(g.ranges, StmtRange{From: rfrom, To: len(g.toks), Kind: "ReturnStatement/value"})
		d.Block.Statements = append(d.Block.Statements, &ast.ReturnStatement{ReturnExpression: v})
	}
	g.t("}", "SubroutineDeclaration#end", true)
	g.eol()
	return d
}

// Program generates a whole file.
func (g *G) Program() *Program {
	p := &Program{}
	g.toks, g.feat, g.ranges = nil, map[string]int{}, nil
	if g.O.StmtOnly {
		for k := 1 + g.R.Intn(g.O.StmtsPer); k > 0; k-- {
			from := len(g.toks)
			p.AST = append(p.AST, g.Stmt(2, false))
			p.Decls = append(p.Decls, [2]int{from, len(g.toks)})
		}
	} else {
		for i := 0; i < g.O.Decls; i++ {
			from := len(g.toks)
			p.AST = append(p.AST, g.Decl(i))
			p.Decls = append(p.Decls, [2]int{from, len(g.toks)})
		}
	}
	p.Toks, p.Features, p.Stmts = g.toks, g.feat, g.ranges
	return p
}

// Wrap puts one expression into `sub f { set var.x = <expr>; }` (used by enumerations).
func (g *G) Wrap(e Expr) *Program {
	g.toks, g.feat = nil, map[string]int{}
	g.t("sub", "SubroutineDeclaration#0", true)
	g.t("f", "SubroutineDeclaration#1", true)
	g.t("{", "SubroutineDeclaration#2", true)
	g.eol()
	g.t("set", "SetStatement#0", true)
	g.t("var.x", "SetStatement#1", true)
	g.t("=", "SetStatement#2", true)
	v := g.emitExpr(e, "SetStatement#3", true)
	g.t(";", "SetStatement#4", true)
	g.eol()
	g.t("}", "SubroutineDeclaration#end", true)
	g.eol()
	st := &ast.SubroutineDeclaration{Name: &ast.Ident{Value: "f"}, Block: &ast.BlockStatement{Statements: []ast.Statement{
		&ast.SetStatement{Ident: &ast.Ident{Value: "var.x"}, Operator: &ast.Operator{Operator: "="}, Value: v}}}}
	return &Program{AST: []ast.Statement{st}, Toks: g.toks, Features: g.feat, Decls: [][2]int{{0, len(g.toks)}}}
}
