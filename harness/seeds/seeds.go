// Package seeds loads the seed programs shared by several checks: every .vcl under
// /repo/examples and the hand-written corpus under /verif/corpus.
package seeds

import (
	"os"
	"path/filepath"
	"regexp"
	"sort"
	"strings"
)

type Seed struct {
	Name string
	Text string
}

func Load(repo, verif string) []Seed {
	var out []Seed
	for _, root := range []string{filepath.Join(repo, "examples"), filepath.Join(verif, "corpus")} {
		filepath.Walk(root, func(p string, info os.FileInfo, err error) error {
			if err != nil || info.IsDir() || !strings.HasSuffix(p, ".vcl") {
				return nil
			}
			b, err := os.ReadFile(p)
			if err == nil {
				out = append(out, Seed{Name: p, Text: string(b)})
			}
			return nil
		})
	}
	sort.Slice(out, func(i, j int) bool { return out[i].Name < out[j].Name })
	return out
}

var declStart = regexp.MustCompile(`(?m)^(sub|acl|backend|director|table|penaltybox|ratecounter|import|include)\b`)

// Pieces cuts a program at top-level declaration starts (column 0 keywords) and groups
// consecutive declarations into pieces of at most max bytes (a single larger declaration is
// kept whole if <= 4*max, otherwise dropped).
func Pieces(text string, max int) []string {
	idx := declStart.FindAllStringIndex(text, -1)
	var decls []string
	if len(idx) == 0 {
		decls = []string{text}
	} else {
		if idx[0][0] > 0 {
			decls = append(decls, text[:idx[0][0]])
		}
		for i := range idx {
			end := len(text)
			if i+1 < len(idx) {
				end = idx[i+1][0]
			}
			decls = append(decls, text[idx[i][0]:end])
		}
	}
	var out []string
	cur := ""
	for _, d := range decls {
		if len(d) > 4*max {
			continue
		}
		if len(cur)+len(d) > max && cur != "" {
			out = append(out, cur)
			cur = ""
		}
		cur += d
	}
	if strings.TrimSpace(cur) != "" {
		out = append(out, cur)
	}
	return out
}
