// Package fw is the shared runtime-monitoring framework: deterministic case generation from a
// seed, execution of every case in supervised child worker processes (the process is falco's
// crash domain: there is no recover() in falco), watchdog + isolated re-run, known-finding
// matching, VIOLATION / KNOWN-FINDING lines, replay files and the evidence file.
package fw

import (
	"bufio"
	"bytes"
	"crypto/sha256"
	"encoding/hex"
	"encoding/json"
	"flag"
	"fmt"
	"hash/fnv"
	"io"
	"math/rand"
	"os"
	"os/exec"
	"path/filepath"
	"regexp"
	"runtime"
	"runtime/debug"
	"sort"
	"strconv"
	"strings"
	"sync"
	"sync/atomic"
	"syscall"
	"time"
)

// Case is one unit of work handed to a worker process. It may stand for many evaluations
// (Outcome.Evals says how many).
type Case struct {
	Seq  int             `json:"seq"`
	Kind string          `json:"kind"`
	Data json.RawMessage `json:"data"`
}

func (c Case) Hash() string {
	h := sha256.New()
	h.Write([]byte(c.Kind))
	h.Write([]byte{0})
	h.Write(c.Data)
	return hex.EncodeToString(h.Sum(nil))[:16]
}

// Viol is one observed violation, already reduced to a finding key.
type Viol struct {
	Key    string `json:"key"`
	What   string `json:"what"`
	Detail any    `json:"detail,omitempty"`
}

// Outcome is what a worker observed while executing one case.
type Outcome struct {
	Viols  []Viol           `json:"viols,omitempty"`
	Evals  int64            `json:"evals,omitempty"` // executions performed (default 1)
	NT     []uint64         `json:"nt,omitempty"`    // hashes of the non-trivial executions (distinctness is counted by the orchestrator)
	Tags   map[string]int64 `json:"tags,omitempty"`  // observation counters (what the monitors saw)
	Inconc []string         `json:"inconc,omitempty"`
	Sample any              `json:"sample,omitempty"` // optional written-out example of what was executed
}

func (o *Outcome) Tag(t string)            { o.TagN(t, 1) }
func (o *Outcome) TagN(t string, n int64) {
	if o.Tags == nil {
		o.Tags = map[string]int64{}
	}
	o.Tags[t] += n
}
func (o *Outcome) Violate(key, what string, detail any) {
	for _, v := range o.Viols {
		if v.Key == key {
			return
		}
	}
	o.Viols = append(o.Viols, Viol{Key: key, What: what, Detail: detail})
}
func (o *Outcome) NonTrivial(b []byte) { o.NT = append(o.NT, Hash64(b)) }
func (o *Outcome) NonTrivialS(s string) { o.NT = append(o.NT, Hash64([]byte(s))) }

func Hash64(b []byte) uint64 {
	h := fnv.New64a()
	h.Write(b)
	return h.Sum64()
}

// GenCtx is given to the generator.
type GenCtx struct {
	Seed  int64
	Tier  string
	Rand  *rand.Rand
	emit  func(kind string, data any)
	Repo  string
	Verif string
}

func (g *GenCtx) Emit(kind string, data any) { g.emit(kind, data) }
func (g *GenCtx) Quick() bool                { return g.Tier != "thorough" }

// Pick returns q in the quick tier and t in the thorough tier.
func (g *GenCtx) Pick(q, t int) int {
	if g.Quick() {
		return q
	}
	return t
}

// Prop describes one property check.
type Prop struct {
	ID          string
	Level       string // evidence level
	Rule        string
	Assumptions []string
	Gen         func(g *GenCtx)
	Run         func(c Case) Outcome
	// WorkerInit runs once in every worker process before the first case.
	WorkerInit func()
	// Timeout is the per-case watchdog (generous: >=1000x the normal cost).
	Timeout time.Duration
	// MinNonTrivial is the floor under which the run is INCONCLUSIVE (exit 2).
	MinNonTrivial int
	Workers       int
	// CrashKey turns the stderr of a dead/hung worker into a finding key; nil = default.
	CrashKey func(c Case, kind string, stderr string) string
	// Finish runs in the orchestrator after all cases; may add violations computed over the
	// whole run (offline checkers) and extra evidence keys.
	Finish func(r *Report)
	// MemLimit is RLIMIT_AS for workers in bytes (0 = 8 GiB; <0 = none).
	MemLimit int64
	// Race marks a race-detector build (no RLIMIT_AS; GORACE log collection).
	Race bool
	// Exhaustive is reported in evidence when the generator enumerates a finite space completely.
	Exhaustive bool
}

// Report is the aggregated result of a run.
type Report struct {
	Prop        *Prop
	Tier        string
	Seed        int64
	Evals       int64
	Cases       int64
	Tags        map[string]int64
	Viols       map[string]*FoundViol // by key
	Inconc      []string
	Samples     []any
	Extra       map[string]any
	ntBits      []uint64
	Distinct    int64
	mu          sync.Mutex
	sampleKinds map[string]int
}

type FoundViol struct {
	Viol
	Case   Case   `json:"case"`
	Count  int    `json:"count"`
	Replay string `json:"replay,omitempty"`
}

const ntBitsLog = 28

func (r *Report) addNT(hs []uint64) {
	for _, h := range hs {
		idx := h & (1<<ntBitsLog - 1)
		w, b := idx>>6, idx&63
		if r.ntBits[w]&(1<<b) == 0 {
			r.ntBits[w] |= 1 << b
			r.Distinct++
		}
	}
}

func (r *Report) AddViol(v Viol, c Case) {
	r.mu.Lock()
	defer r.mu.Unlock()
	if fv, ok := r.Viols[v.Key]; ok {
		fv.Count++
		return
	}
	r.Viols[v.Key] = &FoundViol{Viol: v, Case: c, Count: 1}
}

func (r *Report) merge(c Case, o Outcome) {
	r.mu.Lock()
	r.Cases++
	if o.Evals == 0 {
		o.Evals = 1
	}
	r.Evals += o.Evals
	for k, n := range o.Tags {
		r.Tags[k] += n
	}
	r.addNT(o.NT)
	r.Inconc = append(r.Inconc, o.Inconc...)
	if len(o.NT) > 0 && r.sampleKinds[c.Kind] < 2 && len(r.Samples) < 8 {
		r.sampleKinds[c.Kind]++
		s := o.Sample
		if s == nil {
			s = map[string]any{"kind": c.Kind, "data": truncJSON(c.Data, 1500)}
		}
		r.Samples = append(r.Samples, s)
	}
	r.mu.Unlock()
	for _, v := range o.Viols {
		r.AddViol(v, c)
	}
}

func truncJSON(b []byte, n int) any {
	if len(b) <= n {
		var v any
		if json.Unmarshal(b, &v) == nil {
			return v
		}
		return string(b)
	}
	return string(b[:n]) + "…(truncated)"
}

// ---------------------------------------------------------------------------------------------

type KnownFinding struct {
	Property string `json:"property"`
	Key      string `json:"key"`
	Status   string `json:"status"` // open | fixed
	What     string `json:"what"`
	Commit   string `json:"commit,omitempty"`
}

func loadKF(path, prop string) map[string]KnownFinding {
	out := map[string]KnownFinding{}
	b, err := os.ReadFile(path)
	if err != nil {
		return out
	}
	var all []KnownFinding
	if err := json.Unmarshal(b, &all); err != nil {
		fmt.Fprintf(os.Stderr, "known_findings.json unreadable: %v\n", err)
		os.Exit(2)
	}
	for _, k := range all {
		if k.Property == prop && k.Status == "open" {
			out[k.Key] = k
		}
	}
	return out
}

// ---------------------------------------------------------------------------------------------

var (
	journalOn   bool
	journalFile *os.File
)

// Journal records the sub-input about to be executed. It is a no-op except in the isolated
// re-run of a case whose worker died or hung; there it is written (and flushed by the kernel on
// process death, since it is a plain write(2)) before the execution starts.
func Journal(b []byte) {
	if !journalOn {
		return
	}
	journalFile.Truncate(0)
	journalFile.WriteAt(b, 0)
}
func JournalS(s string) {
	if journalOn {
		Journal([]byte(s))
	}
}

// Guard runs f and converts a panic into (message, stack).
func Guard(f func()) (panicked bool, msg string, stack string) {
	defer func() {
		if r := recover(); r != nil {
			panicked = true
			msg = fmt.Sprint(r)
			stack = string(debug.Stack())
		}
	}()
	f()
	return
}


// TopFalcoFrame returns the innermost falco function named in a Go stack trace
// (package path relative to the module + function), or "" if none.
func TopFalcoFrame(stack string) string {
	for _, line := range strings.Split(stack, "\n") {
		line = strings.TrimSpace(line)
		if !strings.HasPrefix(line, "github.com/ysugimoto/falco/v2/") {
			continue
		}
		// strip argument list
		if i := strings.LastIndex(line, "("); i > 0 {
			line = line[:i]
		}
		line = strings.TrimPrefix(line, "github.com/ysugimoto/falco/v2/")
		// strip closure suffixes .func1.2
		line = regexp.MustCompile(`(\.func\d+)+(\.\d+)*$`).ReplaceAllString(line, "")
		return line
	}
	return ""
}

// PanicKey is the default finding key for a recovered panic.
func PanicKey(stack string) string {
	f := TopFalcoFrame(stack)
	if f == "" {
		f = "?"
	}
	return "panic:" + f
}

// ---------------------------------------------------------------------------------------------

type opts struct {
	tier, evidence, kf, replayDir, replay, verif, repo string
	seed                                                 int64
	worker, journal                                      bool
	journalPath                                          string
	workers                                              int
}

// Main is the entry point of every check binary.
func Main(p *Prop) {
	var o opts
	flag.StringVar(&o.tier, "tier", envOr("VERIF_TIER", "quick"), "quick|thorough")
	flag.Int64Var(&o.seed, "seed", envInt("VERIF_SEED", 1), "seed")
	flag.StringVar(&o.verif, "verif", envOr("VERIF_DIR", "/verif"), "verif dir")
	flag.StringVar(&o.repo, "repo", envOr("VERIF_REPO", "/repo"), "repo dir")
	flag.StringVar(&o.replay, "replay", "", "replay file")
	flag.BoolVar(&o.worker, "worker", false, "internal: worker mode")
	flag.StringVar(&o.journalPath, "journal", "", "internal: journal file")
	flag.IntVar(&o.workers, "workers", 0, "worker processes")
	flag.Parse()
	if o.tier != "quick" && o.tier != "thorough" {
		o.tier = "quick"
	}
	o.evidence = filepath.Join(envOr("VERIF_EVIDENCE_DIR", filepath.Join(o.verif, "evidence")), p.ID+".json")
	o.kf = filepath.Join(o.verif, "known_findings.json")
	o.replayDir = filepath.Join(o.verif, "replay", p.ID)
	Repo, Verif, Tier, Seed = o.repo, o.verif, o.tier, o.seed
	if o.worker {
		workerMain(p, &o)
		return
	}
	if o.replay != "" {
		os.Exit(replayMain(p, &o))
	}
	os.Exit(orchestrate(p, &o))
}

// FalcoBin is the falco CLI built from the repository under check (see tools/build_falco.sh).
func FalcoBin() string {
	return envOr("VERIF_FALCO_BIN", filepath.Join(Verif, ".build", "falco"))
}

// Globals readable by workers and generators.
var (
	Repo, Verif, Tier string
	Seed              int64
)

func envOr(k, d string) string {
	if v := os.Getenv(k); v != "" {
		return v
	}
	return d
}
func envInt(k string, d int64) int64 {
	if v := os.Getenv(k); v != "" {
		if n, err := strconv.ParseInt(v, 10, 64); err == nil {
			return n
		}
	}
	return d
}

// ---------------------------------------------------------------------------------------------
// worker side

func workerMain(p *Prop, o *opts) {
	debug.SetMaxStack(64 << 20)
	if !p.Race && p.MemLimit >= 0 {
		lim := uint64(8 << 30)
		if p.MemLimit > 0 {
			lim = uint64(p.MemLimit)
		}
		syscall.Setrlimit(syscall.RLIMIT_AS, &syscall.Rlimit{Cur: lim, Max: lim})
	}
	if o.journalPath != "" {
		f, err := os.OpenFile(o.journalPath, os.O_CREATE|os.O_RDWR|os.O_TRUNC, 0o644)
		if err == nil {
			journalOn, journalFile = true, f
		}
	}
	if p.WorkerInit != nil {
		p.WorkerInit()
	}
	in := bufio.NewReaderSize(os.Stdin, 1<<20)
	out := bufio.NewWriterSize(os.Stdout, 1<<20)
	for {
		line, err := in.ReadBytes('\n')
		if len(line) > 0 {
			var c Case
			if e := json.Unmarshal(line, &c); e != nil {
				fmt.Fprintf(os.Stderr, "worker: bad case: %v\n", e)
				os.Exit(3)
			}
			oc := runGuarded(p, c)
			b, e := json.Marshal(oc)
			if e != nil {
				oc = Outcome{Inconc: []string{"outcome not serialisable: " + e.Error()}}
				b, _ = json.Marshal(oc)
			}
			out.Write(b)
			out.WriteByte('\n')
			out.Flush()
		}
		if err != nil {
			return
		}
	}
}

func runGuarded(p *Prop, c Case) (oc Outcome) {
	defer func() {
		if r := recover(); r != nil {
			st := string(debug.Stack())
			oc.Violate(PanicKey(st)+"/uncaught", fmt.Sprintf("panic: %v", r), map[string]any{"stack": trimStack(st)})
		}
	}()
	return p.Run(c)
}

func trimStack(s string) string {
	lines := strings.Split(s, "\n")
	if len(lines) > 60 {
		lines = lines[:60]
	}
	return strings.Join(lines, "\n")
}

// TrimStack is exported for property code.
func TrimStack(s string) string { return trimStack(s) }

// ---------------------------------------------------------------------------------------------
// orchestrator side

type child struct {
	cmd    *exec.Cmd
	in     io.WriteCloser
	out    *bufio.Reader
	errF   *os.File
	lines  chan []byte
	waited chan struct{}
}

func spawn(p *Prop, o *opts, journal string) (*child, error) {
	self, _ := os.Executable()
	args := []string{"-worker", "-tier", o.tier, "-seed", fmt.Sprint(o.seed), "-verif", o.verif, "-repo", o.repo}
	if journal != "" {
		args = append(args, "-journal", journal)
	}
	cmd := exec.Command(self, args...)
	cmd.Env = append(os.Environ(), "GOTRACEBACK=all")
	tmp := filepath.Join(o.verif, ".build", "tmp")
	os.MkdirAll(tmp, 0o755)
	ef, err := os.CreateTemp(tmp, p.ID+"-stderr-*")
	if err != nil {
		return nil, err
	}
	if p.Race {
		cmd.Env = append(cmd.Env, "GORACE=halt_on_error=0 log_path="+ef.Name()+".race")
	}
	cmd.Stderr = ef
	if os.Getenv("FW_DEBUG") != "" {
		cmd.Stderr = os.Stderr
	}
	in, _ := cmd.StdinPipe()
	outp, _ := cmd.StdoutPipe()
	cmd.SysProcAttr = &syscall.SysProcAttr{Setpgid: true, Pdeathsig: syscall.SIGKILL}
	if err := cmd.Start(); err != nil {
		return nil, err
	}
	ch := &child{cmd: cmd, in: in, out: bufio.NewReaderSize(outp, 1<<20), errF: ef, lines: make(chan []byte, 1), waited: make(chan struct{})}
	go func() {
		for {
			line, err := ch.out.ReadBytes('\n')
			if len(line) > 0 && line[len(line)-1] == '\n' {
				ch.lines <- line
			}
			if err != nil {
				close(ch.lines)
				return
			}
		}
	}()
	return ch, nil
}

func (ch *child) stderrText() string {
	b, _ := os.ReadFile(ch.errF.Name())
	if len(b) > 1<<20 {
		// keep head (panic message, first goroutine) and tail
		b = append(append([]byte{}, b[:768<<10]...), b[len(b)-(128<<10):]...)
	}
	return string(b)
}

func (ch *child) raceLogs() []string {
	m, _ := filepath.Glob(ch.errF.Name() + ".race*")
	var out []string
	for _, f := range m {
		b, _ := os.ReadFile(f)
		out = append(out, string(b))
		os.Remove(f)
	}
	return out
}

func (ch *child) kill(sig syscall.Signal) {
	if ch.cmd.Process != nil {
		syscall.Kill(-ch.cmd.Process.Pid, sig)
	}
}

func (ch *child) close() {
	ch.in.Close()
	done := make(chan struct{})
	go func() { ch.cmd.Wait(); close(done) }()
	select {
	case <-done:
	case <-time.After(20 * time.Second):
		ch.kill(syscall.SIGKILL)
		<-done
	}
	ch.errF.Close()
	os.Remove(ch.errF.Name())
}

// exec1 sends one case and waits for the outcome. status: "ok", "died", "hung".
func (ch *child) exec1(c Case, timeout time.Duration) (Outcome, string, string) {
	b, _ := json.Marshal(c)
	b = append(b, '\n')
	if _, err := ch.in.Write(b); err != nil {
		ch.cmd.Wait()
		return Outcome{}, "died", ch.stderrText()
	}
	t := time.NewTimer(timeout)
	defer t.Stop()
	select {
	case line, ok := <-ch.lines:
		if !ok {
			ch.cmd.Wait()
			return Outcome{}, "died", ch.stderrText()
		}
		var oc Outcome
		if err := json.Unmarshal(line, &oc); err != nil {
			return Outcome{Inconc: []string{"bad outcome line: " + err.Error()}}, "ok", ""
		}
		return oc, "ok", ""
	case <-t.C:
		ch.kill(syscall.SIGQUIT)
		done := make(chan struct{})
		go func() { ch.cmd.Wait(); close(done) }()
		select {
		case <-done:
		case <-time.After(10 * time.Second):
			ch.kill(syscall.SIGKILL)
			<-done
		}
		return Outcome{}, "hung", ch.stderrText()
	}
}

func defaultCrashKey(kind, stderr string) string {
	if kind == "hung" {
		// the running goroutine in a SIGQUIT dump
		f := TopFalcoFrame(stderr)
		if f == "" {
			f = "?"
		}
		return "hang:" + f
	}
	if i := strings.Index(stderr, "fatal error: "); i >= 0 {
		msg := stderr[i+13:]
		if j := strings.IndexByte(msg, '\n'); j >= 0 {
			msg = msg[:j]
		}
		rest := stderr[i:]
		// for stack overflow the deepest frames are printed first
		f := TopFalcoFrame(rest)
		return "fatal:" + strings.TrimSpace(msg) + "/" + f
	}
	if i := strings.Index(stderr, "panic: "); i >= 0 {
		return PanicKey(stderr[i:])
	}
	if strings.Contains(stderr, "WARNING: DATA RACE") {
		return "race:exit"
	}
	return "died:unknown"
}

func orchestrate(p *Prop, o *opts) int {
	start := time.Now()
	if p.Timeout == 0 {
		p.Timeout = 120 * time.Second
	}
	n := o.workers
	if n == 0 {
		n = p.Workers
	}
	if n == 0 {
		n = runtime.NumCPU()
	}
	rep := &Report{Prop: p, Tier: o.tier, Seed: o.seed, Tags: map[string]int64{}, Viols: map[string]*FoundViol{},
		Extra: map[string]any{}, ntBits: make([]uint64, 1<<(ntBitsLog-6)), sampleKinds: map[string]int{}}

	cases := make(chan Case, 256)
	go func() {
		seq := 0
		g := &GenCtx{Seed: o.seed, Tier: o.tier, Rand: rand.New(rand.NewSource(o.seed)), Repo: o.repo, Verif: o.verif}
		g.emit = func(kind string, data any) {
			b, err := json.Marshal(data)
			if err != nil {
				panic(err)
			}
			seq++
			cases <- Case{Seq: seq, Kind: kind, Data: b}
		}
		p.Gen(g)
		close(cases)
	}()

	var wg sync.WaitGroup
	var raceMu sync.Mutex
	var raceLogs []string
	for w := 0; w < n; w++ {
		wg.Add(1)
		go func() {
			defer wg.Done()
			var ch *child
			defer func() {
				if ch != nil {
					ch.close()
					if p.Race {
						raceMu.Lock()
						raceLogs = append(raceLogs, ch.raceLogs()...)
						raceMu.Unlock()
					}
				}
			}()
			for c := range cases {
				if atomic.LoadInt32(&workerDeaths) >= maxWorkerDeaths {
					// the run is already a violation many times over: the remaining cases are not executed
					// (each death costs a watchdog or an out-of-memory build-up plus its isolated re-run)
					atomic.AddInt64(&skippedCases, 1)
					continue
				}
				if ch == nil {
					var err error
					ch, err = spawn(p, o, "")
					if err != nil {
						rep.mu.Lock()
						rep.Inconc = append(rep.Inconc, "spawn failed: "+err.Error())
						rep.mu.Unlock()
						continue
					}
				}
				oc, st, stderr := ch.exec1(c, p.Timeout)
				if st == "ok" {
					rep.merge(c, oc)
					continue
				}
				// worker died or hung on this case
				if p.Race {
					raceMu.Lock()
					raceLogs = append(raceLogs, ch.raceLogs()...)
					raceMu.Unlock()
				}
				ch.errF.Close()
				os.Remove(ch.errF.Name())
				ch = nil
				atomic.AddInt32(&workerDeaths, 1)
				handleDeath(p, o, rep, c, st, stderr)
			}
		}()
	}
	wg.Wait()
	if n := atomic.LoadInt64(&skippedCases); n > 0 {
		rep.Inconc = append(rep.Inconc, fmt.Sprintf("%d cases were not executed: the run was cut short after %d worker deaths/hangs (all reported as violations)", n, maxWorkerDeaths))
	}
	if p.Race {
		rep.Extra["race_logs"] = raceLogs
	}
	if p.Finish != nil {
		p.Finish(rep)
	}
	delete(rep.Extra, "race_logs")
	return conclude(p, o, rep, start)
}

var confirmedHangs int32

// workerDeaths counts the cases on which a worker died or hung; past maxWorkerDeaths the orchestrator
// stops executing cases (the verdict is "violated" already and cannot change).
var workerDeaths int32
var skippedCases int64

const maxWorkerDeaths = 40

// handleDeath applies the isolated re-run rule.
func handleDeath(p *Prop, o *opts, rep *Report, c Case, st, stderr string) {
	if st == "hung" && atomic.LoadInt32(&confirmedHangs) >= 3 {
		// three watchdog firings were already confirmed by isolated re-runs in this run: later ones are
		// reported from the first dump (same key family) without spending another 3x budget each
		k := defaultCrashKey("hung", stderr)
		if p.CrashKey != nil {
			if kk := p.CrashKey(c, "hung", stderr); kk != "" {
				k = kk
			}
		}
		rep.AddViol(Viol{Key: k, What: "worker did not return within the watchdog (isolated re-run skipped: 3 hangs already confirmed in this run)", Detail: map[string]any{"stderr": headTail(stderr, 6000)}}, c)
		return
	}
	tmp := filepath.Join(o.verif, ".build", "tmp")
	jf, _ := os.CreateTemp(tmp, p.ID+"-journal-*")
	jf.Close()
	defer os.Remove(jf.Name())
	ch, err := spawn(p, o, jf.Name())
	var st2, stderr2 string
	var oc2 Outcome
	if err == nil {
		oc2, st2, stderr2 = ch.exec1(c, 3*p.Timeout)
		if st2 == "ok" {
			ch.close()
		} else {
			ch.errF.Close()
			os.Remove(ch.errF.Name())
		}
	}
	sub, _ := os.ReadFile(jf.Name())
	keyf := func(kind, se string) string {
		if p.CrashKey != nil {
			if k := p.CrashKey(c, kind, se); k != "" {
				return k
			}
		}
		return defaultCrashKey(kind, se)
	}
	detail := map[string]any{"status": st, "stderr": headTail(stderr, 6000)}
	if len(sub) > 0 {
		detail["sub_input"] = string(sub)
	}
	switch {
	case st == "hung" && st2 == "ok":
		rep.merge(c, oc2)
		rep.mu.Lock()
		rep.Inconc = append(rep.Inconc, fmt.Sprintf("watchdog fired on case %d (%s) but the isolated re-run completed", c.Seq, c.Kind))
		rep.mu.Unlock()
	case st == "hung":
		detail["rerun_status"] = st2
		detail["rerun_stderr"] = headTail(stderr2, 6000)
		k := keyf("hung", stderr2)
		if st2 == "died" {
			k = keyf("died", stderr2)
		}
		atomic.AddInt32(&confirmedHangs, 1)
		rep.AddViol(Viol{Key: k, What: "worker did not return within the watchdog, again in the isolated re-run (3x budget)", Detail: detail}, c)
	default: // died
		detail["rerun_status"] = st2
		k := keyf("died", stderr)
		what := "worker process died while executing this case"
		if st2 == "ok" {
			what += " (did not die in the isolated re-run: history-dependent)"
			rep.merge(c, oc2)
		}
		rep.AddViol(Viol{Key: k, What: what, Detail: detail}, c)
	}
}

func headTail(s string, n int) string {
	if len(s) <= n {
		return s
	}
	return s[:n*3/4] + "\n…\n" + s[len(s)-n/4:]
}

func conclude(p *Prop, o *opts, rep *Report, start time.Time) int {
	kf := loadKF(o.kf, p.ID)
	keys := make([]string, 0, len(rep.Viols))
	for k := range rep.Viols {
		keys = append(keys, k)
	}
	sort.Strings(keys)
	nviol, nknown := 0, 0
	knownHit := []string{}
	os.MkdirAll(o.replayDir, 0o755)
	for _, k := range keys {
		fv := rep.Viols[k]
		if f, ok := kf[k]; ok {
			fmt.Printf("KNOWN-FINDING: property=%s %s %s\n", p.ID, k, f.What)
			nknown++
			knownHit = append(knownHit, k)
			continue
		}
		nviol++
		if nviol > 20 {
			fmt.Printf("  (further violation, no replay file) key=%s count=%d what=%s\n", k, fv.Count, oneLine(fv.What, 200))
			continue
		}
		path := filepath.Join(o.replayDir, fv.Case.Hash()+"-"+sanitize(k)+".json")
		b, _ := json.MarshalIndent(map[string]any{"property": p.ID, "seed": o.seed, "tier": o.tier, "key": k, "what": fv.What, "detail": fv.Detail, "count": fv.Count, "case": fv.Case}, "", " ")
		os.WriteFile(path, b, 0o644)
		fv.Replay = path
		fmt.Printf("VIOLATION property=%s replay=%s\n", p.ID, path)
		fmt.Printf("  key=%s count=%d what=%s\n", k, fv.Count, oneLine(fv.What, 300))
	}
	wall := time.Since(start).Seconds()
	inconcl := false
	if int(rep.Distinct) < max(p.MinNonTrivial, 2) {
		inconcl = true
		rep.Inconc = append(rep.Inconc, fmt.Sprintf("only %d distinct non-trivial executions observed (floor %d)", rep.Distinct, max(p.MinNonTrivial, 2)))
	}
	cov := map[string]any{
		"evaluations":         rep.Evals,
		"cases":               rep.Cases,
		"distinct_nontrivial": rep.Distinct,
		"rule":                p.Rule,
		"samples":             rep.Samples,
		"observed":            capTags(rep.Tags, 400),
		"known_findings_hit":  knownHit,
		"inconclusive":        capStrings(rep.Inconc, 20),
		"inconclusive_count":  len(rep.Inconc),
	}
	if p.Exhaustive {
		cov["exhaustive"] = true
	}
	for k, v := range rep.Extra {
		cov[k] = v
	}
	if len(rep.Samples) == 0 {
		cov["samples"] = []any{"(no non-trivial case observed)"}
	}
	ev := map[string]any{
		"property_id": p.ID, "tier": o.tier, "seed": o.seed, "level": p.Level,
		"coverage": cov, "assumptions": p.Assumptions, "wall_s": wall, "violations": nviol,
	}
	b, _ := json.MarshalIndent(ev, "", " ")
	os.MkdirAll(filepath.Dir(o.evidence), 0o755)
	if err := os.WriteFile(o.evidence, b, 0o644); err != nil {
		fmt.Fprintf(os.Stderr, "cannot write evidence: %v\n", err)
	}
	fmt.Fprintf(os.Stderr, "%s %s seed=%d: cases=%d evals=%d distinct_nontrivial=%d violations=%d known=%d inconclusive=%d wall=%.1fs\n",
		p.ID, o.tier, o.seed, rep.Cases, rep.Evals, rep.Distinct, nviol, nknown, len(rep.Inconc), wall)
	if nviol > 0 {
		return 1
	}
	if inconcl {
		fmt.Printf("INCONCLUSIVE property=%s %s\n", p.ID, rep.Inconc[len(rep.Inconc)-1])
		return 2
	}
	return 0
}

func capTags(m map[string]int64, n int) map[string]int64 {
	if len(m) <= n {
		return m
	}
	keys := make([]string, 0, len(m))
	for k := range m {
		keys = append(keys, k)
	}
	sort.Strings(keys)
	out := map[string]int64{}
	for _, k := range keys[:n] {
		out[k] = m[k]
	}
	out["(distinct tags total)"] = int64(len(m))
	return out
}
func capStrings(s []string, n int) []string {
	if len(s) > n {
		return s[:n]
	}
	if s == nil {
		return []string{}
	}
	return s
}

func oneLine(s string, n int) string {
	s = strings.ReplaceAll(s, "\n", " ")
	if len(s) > n {
		s = s[:n] + "…"
	}
	return s
}

func sanitize(s string) string {
	var b bytes.Buffer
	for _, r := range s {
		if r >= 'a' && r <= 'z' || r >= 'A' && r <= 'Z' || r >= '0' && r <= '9' || r == '-' || r == '_' || r == '.' {
			b.WriteRune(r)
		} else {
			b.WriteByte('_')
		}
		if b.Len() > 60 {
			break
		}
	}
	return b.String()
}

// replayMain re-executes exactly one recorded case in a supervised worker.
func replayMain(p *Prop, o *opts) int {
	b, err := os.ReadFile(o.replay)
	if err != nil {
		fmt.Fprintln(os.Stderr, err)
		return 2
	}
	var rf struct {
		Case Case   `json:"case"`
		Key  string `json:"key"`
	}
	if err := json.Unmarshal(b, &rf); err != nil {
		fmt.Fprintln(os.Stderr, err)
		return 2
	}
	if p.Timeout == 0 {
		p.Timeout = 120 * time.Second
	}
	rep := &Report{Prop: p, Tier: o.tier, Seed: o.seed, Tags: map[string]int64{}, Viols: map[string]*FoundViol{},
		Extra: map[string]any{}, ntBits: make([]uint64, 1<<(ntBitsLog-6)), sampleKinds: map[string]int{}}
	ch, err := spawn(p, o, "")
	if err != nil {
		fmt.Fprintln(os.Stderr, err)
		return 2
	}
	oc, st, stderr := ch.exec1(rf.Case, 3*p.Timeout)
	if st == "ok" {
		ch.close()
		rep.merge(rf.Case, oc)
	} else {
		handleDeath(p, o, rep, rf.Case, st, stderr)
	}
	kf := loadKF(o.kf, p.ID)
	rc := 0
	for k, fv := range rep.Viols {
		if _, ok := kf[k]; ok {
			fmt.Printf("KNOWN-FINDING: property=%s %s\n", p.ID, k)
			continue
		}
		fmt.Printf("VIOLATION property=%s replay=%s\n  key=%s what=%s\n", p.ID, o.replay, k, oneLine(fv.What, 400))
		d, _ := json.MarshalIndent(fv.Detail, "  ", " ")
		fmt.Printf("  detail=%s\n", headTail(string(d), 4000))
		rc = 1
	}
	if rc == 0 {
		fmt.Printf("replay: property %s held on the recorded case (recorded key %s)\n", p.ID, rf.Key)
	}
	return rc
}
