// Package fmtcheck is the shared workload of the three formatter properties: C03 (formatting
// preserves meaning), C14 (idempotence) and C15 (every comment is kept). One worker, three oracles.
package fmtcheck

import (
	"encoding/json"
	"fmt"
	"io"
	"math/rand"
	"regexp"
	"sort"
	"strings"
	"time"

	"github.com/ysugimoto/falco/v2/ast"
	"github.com/ysugimoto/falco/v2/config"
	"github.com/ysugimoto/falco/v2/formatter"
	"github.com/ysugimoto/falco/v2/lexer"
	"github.com/ysugimoto/falco/v2/parser"
	"github.com/ysugimoto/falco/v2/token"

	"verif/harness/astcmp"
	"verif/harness/fw"
	"verif/harness/gen"
	"verif/harness/render"
	"verif/harness/seeds"
)

type fcase struct {
	Seed   int64  `json:"seed"`
	N      int    `json:"n"`
	Rows   int    `json:"rows"`
	Seed2  int64  `json:"seed2"`
	Source string `json:"source,omitempty"` // a seed file (examples/corpus)
	Name   string `json:"name,omitempty"`
	Single bool   `json:"single,omitempty"` // C15: decorate each documented placeholder alone
}

var oracle string

// Main runs the check for one of C03 / C14 / C15.
func Main(id string) {
	oracle = id
	rules := map[string]string{
		"C03": "t1 = parse(src); out = Format(t1, conf) on a fresh parse; out must parse and its tree must equal t1 apart from *ast.Meta and the rewrites the configuration documents " +
			"(Explicit/else-if spelling/trailing comma always presentational; return parentheses outside functional subroutines; remove->unset iff should_use_unset; property order iff sort_declaration_property; declaration order iff sort_declaration); " +
			"numeric source literals and raw double-quoted string text are compared too. non-trivial = program with >=5 node kinds or a wrapped expression (any line of the output longer than half the line width); distinct by hash of (source, configuration)",
		"C14": "out1 = Format(parse(src), conf); out2 = Format(parse(out1), conf); out2 must equal out1 byte for byte. non-trivial = source containing a comment, a blank-line group or a line that wraps; distinct by hash of (source, configuration)",
		"C15": "every comment inserted at a placeholder that docs/parser.md documents carries a unique serial; the COMMENT tokens of the input (falco's own lexer) and of the formatted output must carry the same serials, each exactly once, in the same order, " +
			"with the same text after normalising the leading marker run according to comment_style; `#FASTLY <scope>`, falco-ignore and @scope comments are included with their exact text. non-trivial = program decorated with >=1 comment; distinct by hash of (source, configuration)",
	}
	fw.Main(&fw.Prop{
		ID:    id,
		Level: "exploration",
		Rule: "inputs: programs from the grammar-directed generator (declarations only, as fmt requires) rendered with random layouts and comment decorations, every parseable .vcl under examples/ and /verif/corpus; " +
			"configurations: the default row, every single-option flip and random rows over all 15 formatter options (indent width {1,2,4,8}, style, line width {-1,1,20,80,120}, trailing comment width {0,1,4}, comment style, ten booleans). " + rules[id],
		Assumptions: []string{
			"the generator's programs are syntactically valid but not lint-clean; the formatter is required to handle every parseable declarations file",
			"comments are compared through falco's own lexer, as the property's observation point says",
		},
		Gen:           genCases,
		Run:           run,
		Timeout:       180 * time.Second,
		MinNonTrivial: 300,
	})
}

func genCases(g *fw.GenCtx) {
	for _, s := range seeds.Load(g.Repo, g.Verif) {
		if len(s.Text) > 200000 {
			continue
		}
		g.Emit("seed", fcase{Source: s.Text, Name: s.Name, Rows: g.Pick(6, 40), Seed2: g.Rand.Int63()})
	}
	if oracle == "C15" {
		for k := 0; k < g.Pick(40, 600); k++ {
			g.Emit("single", fcase{Seed: g.Rand.Int63(), N: 4, Rows: g.Pick(2, 6), Seed2: g.Rand.Int63(), Single: true})
		}
	}
	n := g.Pick(700, 4000)
	for k := 0; k < n; k++ {
		g.Emit("gen", fcase{Seed: g.Rand.Int63(), N: 12, Rows: g.Pick(6, 12), Seed2: g.Rand.Int63()})
	}
}

// ---- configurations --------------------------------------------------------------------------

func DefaultConfig() *config.FormatConfig {
	return &config.FormatConfig{IndentWidth: 2, TrailingCommentWidth: 1, IndentStyle: "space", LineWidth: 120, ExplicitStringConcat: true,
		ReturnStatementParenthesis: true, CommentStyle: "none", BreakCompoundConditions: true}
}

var boolOpts = []string{"ExplicitStringConcat", "SortDeclarationProperty", "AlignDeclarationProperty", "ElseIf", "AlwaysNextLineElseIf", "ReturnStatementParenthesis", "SortDeclaration",
	"AlignTrailingComment", "ShouldUseUnset", "IndentCaseLabels", "BreakCompoundConditions"}

func flip(c *config.FormatConfig, name string) {
	switch name {
	case "ExplicitStringConcat":
		c.ExplicitStringConcat = !c.ExplicitStringConcat
	case "SortDeclarationProperty":
		c.SortDeclarationProperty = !c.SortDeclarationProperty
	case "AlignDeclarationProperty":
		c.AlignDeclarationProperty = !c.AlignDeclarationProperty
	case "ElseIf":
		c.ElseIf = !c.ElseIf
	case "AlwaysNextLineElseIf":
		c.AlwaysNextLineElseIf = !c.AlwaysNextLineElseIf
	case "ReturnStatementParenthesis":
		c.ReturnStatementParenthesis = !c.ReturnStatementParenthesis
	case "SortDeclaration":
		c.SortDeclaration = !c.SortDeclaration
	case "AlignTrailingComment":
		c.AlignTrailingComment = !c.AlignTrailingComment
	case "ShouldUseUnset":
		c.ShouldUseUnset = !c.ShouldUseUnset
	case "IndentCaseLabels":
		c.IndentCaseLabels = !c.IndentCaseLabels
	case "BreakCompoundConditions":
		c.BreakCompoundConditions = !c.BreakCompoundConditions
	}
}

type row struct {
	Conf *config.FormatConfig
	Name string
}

// Rows: default, all single flips (deterministic prefix), then random rows.
func Rows(r *rand.Rand, n int) []row {
	out := []row{{DefaultConfig(), "default"}}
	singles := []row{}
	for _, b := range boolOpts {
		c := DefaultConfig()
		flip(c, b)
		singles = append(singles, row{c, "flip:" + b})
	}
	for _, w := range []int{1, 4, 8} {
		c := DefaultConfig()
		c.IndentWidth = w
		singles = append(singles, row{c, fmt.Sprintf("indent_width=%d", w)})
	}
	for _, w := range []int{-1, 1, 20, 80} {
		c := DefaultConfig()
		c.LineWidth = w
		singles = append(singles, row{c, fmt.Sprintf("line_width=%d", w)})
	}
	for _, w := range []int{0, 4} {
		c := DefaultConfig()
		c.TrailingCommentWidth = w
		singles = append(singles, row{c, fmt.Sprintf("trailing_comment_width=%d", w)})
	}
	for _, s := range []string{"sharp", "slash"} {
		c := DefaultConfig()
		c.CommentStyle = s
		singles = append(singles, row{c, "comment_style=" + s})
	}
	c := DefaultConfig()
	c.IndentStyle = "tab"
	singles = append(singles, row{c, "indent_style=tab"})
	r.Shuffle(len(singles), func(i, j int) { singles[i], singles[j] = singles[j], singles[i] })
	for len(out) < n && len(singles) > 0 && len(out) < 1+n/2 {
		out = append(out, singles[0])
		singles = singles[1:]
	}
	for len(out) < n {
		c := DefaultConfig()
		c.IndentWidth = []int{1, 2, 4, 8}[r.Intn(4)]
		c.IndentStyle = []string{"space", "tab"}[r.Intn(2)]
		c.LineWidth = []int{-1, 1, 20, 80, 120}[r.Intn(5)]
		c.TrailingCommentWidth = []int{0, 1, 4}[r.Intn(3)]
		c.CommentStyle = []string{"none", "sharp", "slash"}[r.Intn(3)]
		name := fmt.Sprintf("random:iw=%d,%s,lw=%d,tcw=%d,cs=%s", c.IndentWidth, c.IndentStyle, c.LineWidth, c.TrailingCommentWidth, c.CommentStyle)
		for _, b := range boolOpts {
			if r.Intn(2) == 0 {
				flip(c, b)
				name += "," + b
			}
		}
		out = append(out, row{c, name})
	}
	return out
}

// ---- helpers ---------------------------------------------------------------------------------

func parse(src string) (*ast.VCL, error) {
	return parser.New(lexer.NewFromString(src)).ParseVCL()
}

func Format(src string, c *config.FormatConfig) (out string, status string, stack string) {
	v, err := parse(src)
	if err != nil {
		return "", "noparse:" + err.Error(), ""
	}
	conf := *c
	p, msg, st := fw.Guard(func() {
		r := formatter.New(&conf).Format(v)
		if r == nil {
			status = "nil"
			return
		}
		b, _ := io.ReadAll(r)
		out = string(b)
	})
	if p {
		return "", "panic:" + msg, st
	}
	return out, status, ""
}

type lexComment struct {
	Text string
	Line int
}

func comments(src string) []lexComment {
	l := lexer.NewFromString(src)
	var cs []lexComment
	for i := 0; i < len(src)+10; i++ {
		t := l.NextToken()
		if t.Type == token.EOF {
			break
		}
		if t.Type == token.COMMENT {
			cs = append(cs, lexComment{t.Literal, t.Line})
		}
	}
	return cs
}

var multilineLongString = regexp.MustCompile(`\{[A-Za-z0-9_]*"[^"]*\n`)
var serialRe = regexp.MustCompile(`\bc(\d+)\b`)

func clip(s string, n int) string {
	if len(s) > n {
		return s[:n] + "…"
	}
	return s
}

func firstLine(s string) string {
	if i := strings.IndexByte(s, '\n'); i >= 0 {
		return s[:i]
	}
	return s
}

var cmpOpts = &astcmp.Opts{NumLiteral: true, StringRaw: true, Ignore: map[string]bool{"Explicit": true, "Keyword": true, "HasComma": true, "VCL.IsSnippet": true}}

// normalise applies exactly the rewrites the configuration documents.
func normalise(n *astcmp.N, c *config.FormatConfig) {
	// return parentheses are presentational except in a functional subroutine, where the linter
	// forbids them around a value
	var walk func(x *astcmp.N, functional bool)
	walk = func(x *astcmp.N, functional bool) {
		if x == nil {
			return
		}
		if x.T == "SubroutineDeclaration" {
			rt := x.Get("ReturnType")
			functional = rt != nil && !rt.Nil
		}
		if x.T == "ReturnStatement" {
			re := x.Get("ReturnExpression")
			if !functional || re == nil || re.Nil || re.T == "Ident" {
				x.Del("HasParenthesis")
			}
		}
		if x.T == "String" {
			// the raw text is compared for double-quoted strings only
			if ls := x.Get("LongString"); ls != nil && ls.S == "true" {
				x.Del("Raw")
			}
			x.Del("LongString")
			x.Del("Delimiter")
		}
		if c.ShouldUseUnset && x.T == "RemoveStatement" {
			x.T = "UnsetStatement"
		}
		for _, f := range x.F {
			walk(f.V, functional)
		}
		for _, e := range x.L {
			walk(e, functional)
		}
		if c.SortDeclarationProperty {
			switch x.T {
			case "BackendDeclaration", "DirectorDeclaration", "TableDeclaration":
				x.Get("Properties").SortList()
			case "BackendProbeObject", "DirectorBackendObject":
				x.Get("Values").SortList()
			}
		}
		if c.SortDeclaration && x.T == "VCL" {
			x.Get("Statements").SortList()
		}
	}
	walk(n, false)
}

func kindsIn(n *astcmp.N) int {
	set := map[string]bool{}
	n.Walk(func(x *astcmp.N) {
		if x.T != "" {
			set[x.T] = true
		}
	})
	return len(set)
}

// ---- the three oracles -----------------------------------------------------------------------

type input struct {
	src      string
	origin   string
	declSrcs []string // each top-level declaration alone (for localisation)
	stmtSrcs []stmtSrc // each statement alone in a wrapper subroutine, shortest first
	serials  []int    // C15: serials of the comments inserted at documented placeholders, in order
	slotOf   map[int]string
	// inlineLine: a # or // comment sits at a placeholder in the middle of a statement (the rest of
	// the source line belongs to the statement). The formatter prints such a comment without a line
	// break (known finding), so every failure of such an input is keyed to that one root cause.
	inlineLine bool
}

// rootKey maps every failure of an input with an inline line comment to that single root cause.
func rootKey(in input, class, key string) string {
	if in.inlineLine {
		return "inline-line-comment/" + class
	}
	return key
}

func checkInput(oc *fw.Outcome, in input, rows []row) {
	t1, err := parse(in.src)
	if err != nil {
		oc.Tag("skipped:unparseable-input")
		return
	}
	for _, st := range t1.Statements {
		switch st.(type) {
		case *ast.ImportStatement, *ast.IncludeStatement, *ast.AclDeclaration, *ast.BackendDeclaration, *ast.DirectorDeclaration, *ast.TableDeclaration,
			*ast.PenaltyboxDeclaration, *ast.RatecounterDeclaration, *ast.SubroutineDeclaration:
		default:
			oc.Tag("skipped:not-a-declarations-file")
			return
		}
	}
	hasComment := len(comments(in.src)) > 0
	for _, rw := range rows {
		fw.JournalS(in.src)
		oc.Evals++
		oc.Tag("row:" + optionFamily(rw.Name))
		detail := func(extra map[string]any) map[string]any {
			cj, _ := json.Marshal(rw.Conf)
			d := map[string]any{"source": clip(in.src, 4000), "origin": in.origin, "config": json.RawMessage(cj), "row": rw.Name}
			for k, v := range extra {
				d[k] = v
			}
			return d
		}
		out, status, stack := Format(in.src, rw.Conf)
		ntKey := in.src + "|" + rw.Name
		switch {
		case strings.HasPrefix(status, "panic:"):
			if oracle == "C03" {
				dd := detail(nil)
				unit := localise(in, rw, func(one string) bool {
					_, st, _ := Format(one, rw.Conf)
					if strings.HasPrefix(st, "panic:") {
						dd["minimal"] = clip(one, 1500)
						return true
					}
					return false
				})
				oc.Violate(fw.PanicKey(stack)+"/"+unit, "the formatter panicked on a parseable file: "+status+"\n"+fw.TrimStack(stack), dd)
			}
			continue
		case status == "nil":
			if oracle == "C03" {
				oc.Violate("nil-output", "Format returned nil for a declarations file", detail(nil))
			}
			continue
		case status != "":
			continue
		}
		switch oracle {
		case "C03":
			t2, err := parse(out)
			if err != nil {
				key, dd := "reparse:"+errClass(err.Error()), detail(map[string]any{"formatted": clip(out, 3000)})
				unit := localise(in, rw, func(one string) bool {
					o, st, _ := Format(one, rw.Conf)
					if st != "" {
						return false
					}
					if _, e := parse(o); e != nil {
						dd["minimal"], dd["minimal_formatted"] = clip(one, 1500), clip(o, 1500)
						return true
					}
					return false
				})
				key = "reparse:" + unit
				oc.Violate(rootKey(in, "reparse", key+minimalOption(in, rw, func(c *config.FormatConfig) bool {
					o, st, _ := Format(in.src, c)
					if st != "" {
						return false
					}
					_, e := parse(o)
					return e != nil
				})), "the formatted text does not parse: "+firstLine(err.Error()), dd)
				continue
			}
			a, b := astcmp.Build(t1, cmpOpts), astcmp.Build(t2, cmpOpts)
			normalise(a, rw.Conf)
			normalise(b, rw.Conf)
			if d := astcmp.Compare(a, b); d != nil {
				differs := func(c *config.FormatConfig) bool {
					o, st, _ := Format(in.src, c)
					if st != "" {
						return false
					}
					t, e := parse(o)
					if e != nil {
						return false
					}
					x, y := astcmp.Build(t1, cmpOpts), astcmp.Build(t, cmpOpts)
					normalise(x, c)
					normalise(y, c)
					return astcmp.Compare(x, y) != nil
				}
				dd := detail(map[string]any{"path": d.Path, "original": d.A, "reformatted": d.B, "formatted": clip(out, 3000)})
				unit := localise(in, rw, func(one string) bool {
					o, st, _ := Format(one, rw.Conf)
					if st != "" {
						return false
					}
					t, e := parse(o)
					t0, e0 := parse(one)
					if e != nil || e0 != nil {
						return false
					}
					x, y := astcmp.Build(t0, cmpOpts), astcmp.Build(t, cmpOpts)
					normalise(x, rw.Conf)
					normalise(y, rw.Conf)
					if astcmp.Compare(x, y) != nil {
						dd["minimal"], dd["minimal_formatted"] = clip(one, 1500), clip(o, 1500)
						return true
					}
					return false
				})
				if lastTwo(d.Key()) == "String.Value" && strings.Contains(d.A, "\\n") && strings.Contains(in.src, " \n x\"") {
					// one root cause whatever the statement: continuation lines of a multi-line long string are re-indented
					oc.Violate("diff:String.Value/multiline-longstring", fmt.Sprintf("formatting changed the value of a multi-line long string at %s: %s -> %s", d.Path, clip(d.A, 120), clip(d.B, 120)), dd)
					continue
				}
				oc.Violate(rootKey(in, "diff", "diff:"+unit+"/"+lastTwo(d.Key())+minimalOption(in, rw, differs)),
					fmt.Sprintf("formatting changed the tree at %s: original %s, formatted %s", d.Path, clip(d.A, 150), clip(d.B, 150)), dd)
				continue
			}
			wraps := false
			for _, ln := range strings.Split(out, "\n") {
				if rw.Conf.LineWidth > 0 && len(ln) > rw.Conf.LineWidth/2 {
					wraps = true
				}
			}
			if wraps || kindsIn(a) >= 5 {
				oc.NonTrivialS(ntKey)
			}
		case "C14":
			out2, st2, _ := Format(out, rw.Conf)
			if st2 != "" {
				oc.Tag("second-pass:" + firstWord(st2))
				continue // C03's business
			}
			if out2 != out {
				l1, l2 := strings.Split(out, "\n"), strings.Split(out2, "\n")
				i := 0
				for i < len(l1) && i < len(l2) && l1[i] == l2[i] {
					i++
				}
				a, b := "", ""
				if i < len(l1) {
					a = l1[i]
				}
				if i < len(l2) {
					b = l2[i]
				}
				class := diffClass(a, b, l1, l2, i)
				dd14 := map[string]any{}
				kind := localise(in, rw, func(one string) bool {
					o1, s1, _ := Format(one, rw.Conf)
					if s1 != "" {
						return false
					}
					o2, s2, _ := Format(o1, rw.Conf)
					if s2 == "" && o1 != o2 {
						dd14["unit"] = one
						dd14["minimal"], dd14["minimal_pass1"], dd14["minimal_pass2"] = clip(one, 1500), clip(o1, 1500), clip(o2, 1500)
						return true
					}
					return false
				})
				unitSrc, _ := dd14["unit"].(string)
				delete(dd14, "unit")
				if unitSrc == "" {
					unitSrc = in.src
				}
				// options are attributed on the smallest failing unit: a file can hold several causes
				notIdem := func(c *config.FormatConfig) bool {
					o1, s1, _ := Format(unitSrc, c)
					if s1 != "" {
						return false
					}
					o2, s2, _ := Format(o1, c)
					return s2 == "" && o1 != o2
				}
				k14 := "idem:" + kind + "/" + class + minimalOption(in, rw, notIdem)
				if strings.Contains(unitSrc, " \n x\"") {
					// the smallest failing unit contains a multi-line long string: its continuation
					// lines are re-indented on every pass (one root cause, see known findings)
					k14 = "multiline-longstring/idem"
				}
				// two option-specific root causes: the failure goes away when that option alone is switched off
				for _, opt := range []string{"AlignTrailingComment", "SortDeclarationProperty"} {
					c2 := *rw.Conf
					on := map[string]bool{"AlignTrailingComment": c2.AlignTrailingComment, "SortDeclarationProperty": c2.SortDeclarationProperty}[opt]
					if !on {
						continue
					}
					flip(&c2, opt)
					// ... or it shows under the default configuration with that option alone switched on
					if !notIdem(&c2) || strings.HasSuffix(k14, "@flip:"+opt) {
						k14 = "option:" + opt + "/idem"
					}
				}
				oc.Violate(rootKey(in, "idem", k14), fmt.Sprintf("second formatting pass changes line %d: %q -> %q", i+1, clip(a, 160), clip(b, 160)),
					detail(map[string]any{"pass1": clip(out, 3000), "pass2": clip(out2, 3000), "line": i + 1, "localised": dd14}))
				continue
			}
			if hasComment || strings.Contains(in.src, "\n\n") || strings.Count(out, "\n") > strings.Count(in.src, "\n") {
				oc.NonTrivialS(ntKey)
			}
		case "C15":
			checkComments(oc, in, rw, out, detail)
			if hasComment {
				oc.NonTrivialS(ntKey)
			}
		}
	}
}

func optionFamily(name string) string {
	if strings.HasPrefix(name, "random:") {
		return "random"
	}
	return name
}

func firstWord(s string) string {
	if i := strings.IndexAny(s, ": "); i > 0 {
		return s[:i]
	}
	return s
}

func lastTwo(k string) string {
	parts := strings.Split(k, ".")
	if len(parts) > 2 {
		parts = parts[len(parts)-2:]
	}
	return strings.Join(parts, ".")
}

func kindOf(s ast.Statement) string { return strings.TrimPrefix(fmt.Sprintf("%T", s), "*ast.") }

func errClass(s string) string {
	s = firstLine(s)
	if i := strings.Index(s, ", line"); i > 0 {
		s = s[:i]
	}
	s = regexp.MustCompile(`"[^"]*"`).ReplaceAllString(s, `"…"`)
	return clip(s, 50)
}

type stmtSrc struct {
	src, kind string
}

// localise runs f on each statement alone (shortest first), then on each top-level declaration
// alone, until f reports the failure; it returns the kind of the smallest failing unit.
func localise(in input, rw row, f func(one string) bool) string {
	for _, s := range in.stmtSrcs {
		if f(s.src) {
			return s.kind
		}
	}
	for _, d := range in.declSrcs {
		if f(d) {
			if v, _ := parse(d); v != nil && len(v.Statements) > 0 {
				return kindOf(v.Statements[0])
			}
			return "decl"
		}
	}
	return "file"
}

// minimalOption: does the failure show under the default configuration, or under which single flip?
func minimalOption(in input, rw row, fails func(c *config.FormatConfig) bool) string {
	if rw.Name == "default" {
		return "@default"
	}
	if fails(DefaultConfig()) {
		return "@default"
	}
	if !strings.HasPrefix(rw.Name, "random:") {
		return "@" + rw.Name
	}
	// single differences between the row and the default
	def := DefaultConfig()
	try := func(name string, set func(c *config.FormatConfig)) string {
		c := DefaultConfig()
		set(c)
		if fails(c) {
			return "@" + name
		}
		return ""
	}
	c := rw.Conf
	cands := []struct {
		name string
		diff bool
		set  func(x *config.FormatConfig)
	}{
		{fmt.Sprintf("line_width=%d", c.LineWidth), c.LineWidth != def.LineWidth, func(x *config.FormatConfig) { x.LineWidth = c.LineWidth }},
		{fmt.Sprintf("indent_width=%d", c.IndentWidth), c.IndentWidth != def.IndentWidth, func(x *config.FormatConfig) { x.IndentWidth = c.IndentWidth }},
		{"indent_style=" + c.IndentStyle, c.IndentStyle != def.IndentStyle, func(x *config.FormatConfig) { x.IndentStyle = c.IndentStyle }},
		{fmt.Sprintf("trailing_comment_width=%d", c.TrailingCommentWidth), c.TrailingCommentWidth != def.TrailingCommentWidth, func(x *config.FormatConfig) { x.TrailingCommentWidth = c.TrailingCommentWidth }},
		{"comment_style=" + c.CommentStyle, c.CommentStyle != def.CommentStyle, func(x *config.FormatConfig) { x.CommentStyle = c.CommentStyle }},
	}
	for _, cd := range cands {
		if cd.diff {
			if s := try(cd.name, cd.set); s != "" {
				return s
			}
		}
	}
	for _, b := range boolOpts {
		b := b
		if s := try("flip:"+b, func(x *config.FormatConfig) { flip(x, b) }); s != "" && strings.Contains(rw.Name, ","+b) {
			return s
		}
	}
	return "@combination"
}

func diffClass(a, b string, l1, l2 []string, i int) string {
	ta, tb := strings.TrimSpace(a), strings.TrimSpace(b)
	switch {
	case ta == tb:
		return "indent"
	case ta == "" || tb == "":
		return "blankline"
	case strings.Join(strings.Fields(a), " ") == strings.Join(strings.Fields(b), " "):
		return "padding"
	case strings.ContainsAny(ta, "#") || strings.Contains(ta, "//") || strings.Contains(ta, "/*"):
		return "comment-move"
	case len(l1) != len(l2):
		return "wrap"
	}
	return "text"
}

func checkComments(oc *fw.Outcome, in input, rw row, out string, detail func(map[string]any) map[string]any) {
	inC, outC := comments(in.src), comments(out)
	type sc struct {
		serial int
		text   string
	}
	pick := func(cs []lexComment) (list []sc, special []string) {
		for _, c := range cs {
			if m := serialRe.FindStringSubmatch(c.Text); m != nil {
				var n int
				fmt.Sscan(m[1], &n)
				list = append(list, sc{n, c.Text})
			} else if isSpecial(c.Text) {
				special = append(special, normSpecial(c.Text))
			}
		}
		return
	}
	a, sa := pick(inC)
	b, sb := pick(outC)
	tracked := map[int]bool{}
	for _, s := range in.serials {
		tracked[s] = true
	}
	count := map[int]int{}
	for _, c := range b {
		count[c.serial]++
	}
	var order []int
	for _, c := range b {
		if tracked[c.serial] {
			order = append(order, c.serial)
		}
	}
	slot := func(s int) string {
		if v, ok := in.slotOf[s]; ok {
			return v
		}
		return "?"
	}
	style := func(s int) string {
		for _, c := range a {
			if c.serial == s {
				switch {
				case strings.HasPrefix(c.text, "/*"):
					return "block"
				case strings.HasPrefix(c.text, "//"):
					return "slash"
				}
				return "sharp"
			}
		}
		return "?"
	}
	dd := func(s int) map[string]any {
		return detail(map[string]any{"formatted": clip(out, 3000), "placeholder": slot(s), "serial": s})
	}
	var want []int
	for _, c := range a {
		if !tracked[c.serial] {
			continue
		}
		want = append(want, c.serial)
		switch {
		case count[c.serial] == 0:
			oc.Violate(rootKey(in, "lost", fmt.Sprintf("%s/%s/lost", slot(c.serial), style(c.serial))), fmt.Sprintf("comment %q written at documented placeholder %s is missing from the formatted output", c.text, slot(c.serial)), dd(c.serial))
		case count[c.serial] > 1:
			oc.Violate(rootKey(in, "dup", fmt.Sprintf("%s/%s/dup", slot(c.serial), style(c.serial))), fmt.Sprintf("comment %q appears %d times in the formatted output", c.text, count[c.serial]), dd(c.serial))
		default:
			for _, o := range b {
				if o.serial == c.serial && normMarker(o.text, rw.Conf.CommentStyle) != normMarker(c.text, rw.Conf.CommentStyle) {
					oc.Violate(rootKey(in, "text", fmt.Sprintf("%s/%s/text", slot(c.serial), style(c.serial))), fmt.Sprintf("comment text changed: %q -> %q", c.text, o.text), dd(c.serial))
				}
			}
		}
		oc.Tag("placeholder:" + slot(c.serial))
	}
	// relative order of the surviving tracked comments
	var w2 []int
	for _, s := range want {
		if count[s] == 1 {
			w2 = append(w2, s)
		}
	}
	var o2 []int
	for _, s := range order {
		if count[s] == 1 {
			o2 = append(o2, s)
		}
	}
	for i := range w2 {
		if i < len(o2) && w2[i] != o2[i] && !rw.Conf.SortDeclaration && !rw.Conf.SortDeclarationProperty {
			oc.Violate(rootKey(in, "order", fmt.Sprintf("%s/%s/order", slot(w2[i]), style(w2[i]))), fmt.Sprintf("comments are reordered: expected serial c%d at position %d, found c%d", w2[i], i, o2[i]), dd(w2[i]))
			break
		}
	}
	// special comments keep their exact text
	sort.Strings(sa)
	sort.Strings(sb)
	if strings.Join(sa, "\n") != strings.Join(sb, "\n") {
		missing := ""
		have := map[string]int{}
		for _, s := range sb {
			have[s]++
		}
		for _, s := range sa {
			if have[s] == 0 {
				missing = s
				break
			}
			have[s]--
		}
		oc.Violate("special/"+specialKind(missing), fmt.Sprintf("special comment %q does not survive formatting unchanged", missing), detail(map[string]any{"formatted": clip(out, 3000), "special_in": sa, "special_out": sb}))
	}
}

func isSpecial(c string) bool {
	t := strings.TrimLeft(c, " */#")
	return strings.HasPrefix(t, "FASTLY") || strings.HasPrefix(t, "falco-ignore") || strings.HasPrefix(t, "@scope") || strings.HasPrefix(t, "@plugin")
}
func normSpecial(c string) string {
	t := strings.TrimSpace(strings.TrimLeft(c, " */#"))
	if strings.HasPrefix(t, "FASTLY") {
		// only `#FASTLY` is a macro: the marker belongs to the text that must survive
		return strings.TrimSpace(c)
	}
	return t
}
func specialKind(c string) string {
	switch {
	case strings.HasPrefix(strings.TrimLeft(c, " */#"), "FASTLY"):
		return "FASTLY-macro"
	case strings.HasPrefix(c, "falco-ignore"):
		return "falco-ignore"
	case strings.HasPrefix(c, "@scope"):
		return "@scope"
	}
	return "other"
}

// normMarker strips the leading marker run (#, //, /* */) so that only the text is compared when
// the configured comment style rewrites markers.
func normMarker(c, style string) string {
	c = strings.TrimSpace(c)
	if strings.HasPrefix(c, "/*") {
		return "B:" + strings.TrimSpace(strings.TrimSuffix(strings.TrimPrefix(c, "/*"), "*/"))
	}
	t := strings.TrimLeft(c, "#/")
	if style == "none" {
		// markers must be kept as written
		return c[:len(c)-len(t)] + ":" + strings.TrimSpace(t)
	}
	return "L:" + strings.TrimSpace(t)
}

// ---- inputs ----------------------------------------------------------------------------------

func fromProgram(r *rand.Rand, p *gen.Program, docOnly bool, single int) input {
	pl := render.Plan{Mode: []string{"canonical", "canonical", "random"}[r.Intn(3)], Seed: r.Int63(), Comments: map[int][]render.Comment{}}
	in := input{origin: "generator", slotOf: map[int]string{}}
	var gaps []int
	for i, t := range p.Toks {
		if t.Doc || !docOnly {
			gaps = append(gaps, i)
		}
	}
	gaps = append(gaps, len(p.Toks))
	serial := 0
	allowInlineLine := r.Intn(8) == 0
	add := func(gap int) {
		serial++
		c := render.NewComment(r, serial)
		// a gap is a statement boundary (a line comment is natural there) when it leads a statement,
		// declaration or property, or precedes a closing brace that stands on its own line
		inline := false
		if gap < len(p.Toks) {
			sl := p.Toks[gap].Slot
			boundary := strings.HasSuffix(sl, "#0") || sl == "Block#close" || strings.HasSuffix(sl, "#end") && sl != "DirectorBackendObject#end"
			inline = gap > 0 && !boundary
		}
		if inline && c.Style != "/*" && c.Style != "/**" {
			if allowInlineLine {
				in.inlineLine = true
			} else {
				c.Style = "/*"
			}
		}
		// trailing position: the comment stays on the line of the statement / brace before it
		// (`set a = b; // c`, `} // c`): the same placeholder, the most common layout in practice
		sameLine := gap > 0 && p.Toks[gap-1].EOLAfter && len(pl.Comments[gap]) == 0 && r.Intn(3) == 0
		c.SameLine = sameLine
		pl.Comments[gap] = append(pl.Comments[gap], c)
		// a comment after the last declaration (end of file) is not a documented placeholder
		slot := "tail"
		doc := false
		if gap < len(p.Toks) {
			slot, doc = p.Toks[gap].Slot, p.Toks[gap].Doc
		}
		if sameLine {
			// the placeholder is named after the token the comment trails
			slot = "after:" + p.Toks[gap-1].Slot
		}
		if doc {
			in.serials = append(in.serials, serial)
			in.slotOf[serial] = slot
		}
	}
	switch {
	case single >= 0:
		if single < len(gaps) {
			add(gaps[single])
		}
	case r.Intn(5) == 0:
		// no comments
	case r.Intn(6) == 0:
		for _, gp := range gaps {
			add(gp)
		}
	default:
		for k := 1 + r.Intn(8); k > 0 && len(gaps) > 0; k-- {
			add(gaps[r.Intn(len(gaps))])
		}
	}
	final := renumber(&pl, &in)
	in.src = render.Render(p.Toks, final)
	// localisation units keep the decoration that falls inside them (canonical whitespace)
	sub := func(from, to int) string {
		sp := render.Plan{Mode: "canonical", Comments: map[int][]render.Comment{}}
		for gp, cs := range final.Comments {
			if gp >= from && gp <= to {
				sp.Comments[gp-from] = cs
			}
		}
		return render.Render(p.Toks[from:to], sp)
	}
	for _, d := range p.Decls {
		in.declSrcs = append(in.declSrcs, sub(d[0], d[1]))
	}
	rs := append([]gen.StmtRange{}, p.Stmts...)
	sort.SliceStable(rs, func(i, j int) bool { return rs[i].To-rs[i].From < rs[j].To-rs[j].From })
	for _, sr := range rs {
		head := "sub f {\n"
		if sr.Kind == "ReturnStatement/value" {
			head = "sub f STRING {\n"
		}
		if sr.Kind == "FallthroughStatement" || sr.Kind == "BreakStatement" {
			continue
		}
		in.stmtSrcs = append(in.stmtSrcs, stmtSrc{head + sub(sr.From, sr.To) + "}\n", sr.Kind})
	}
	return in
}

// renumber assigns serials in source order (gap order) so that "relative order" is well defined.
func renumber(pl *render.Plan, in *input) render.Plan {
	var gaps []int
	for gp := range pl.Comments {
		gaps = append(gaps, gp)
	}
	sort.Ints(gaps)
	newSlot := map[int]string{}
	var newSerials []int
	n := 0
	out := render.Plan{Mode: pl.Mode, Seed: pl.Seed, Comments: map[int][]render.Comment{}}
	for _, gp := range gaps {
		for _, c := range pl.Comments[gp] {
			n++
			m := serialRe.FindStringSubmatch(c.Text)
			var old int
			fmt.Sscan(m[1], &old)
			c.Text = fmt.Sprintf("c%d%s", n, strings.TrimPrefix(c.Text, m[0]))
			out.Comments[gp] = append(out.Comments[gp], c)
			if s, ok := in.slotOf[old]; ok {
				newSlot[n] = s
				newSerials = append(newSerials, n)
			}
		}
	}
	in.slotOf, in.serials = newSlot, newSerials
	return out
}

func run(c fw.Case) fw.Outcome {
	var oc fw.Outcome
	var fc fcase
	json.Unmarshal(c.Data, &fc)
	r2 := rand.New(rand.NewSource(fc.Seed2))
	rows := Rows(r2, fc.Rows)
	if fc.Source != "" {
		in := input{src: fc.Source, origin: fc.Name}
		for _, p := range seeds.Pieces(fc.Source, 1) {
			in.declSrcs = append(in.declSrcs, p)
		}
		// the serial-less comments of seed files are tracked by text for C15
		if oracle == "C15" {
			in = serialise(in)
		}
		checkInput(&oc, in, rows)
		return oc
	}
	r := rand.New(rand.NewSource(fc.Seed))
	for i := 0; i < fc.N; i++ {
		g := gen.New(r, gen.Opts{MaxDepth: 3, Decls: 1 + r.Intn(4), Conservative: false})
		p := g.Program()
		if fc.Single {
			// every documented placeholder of this program, one at a time
			ngaps := 0
			for _, t := range p.Toks {
				if t.Doc {
					ngaps++
				}
			}
			for s := 0; s <= ngaps; s++ {
				checkInput(&oc, fromProgram(r, p, true, s), rows[:min(len(rows), 2)])
			}
			continue
		}
		in := fromProgram(r, p, true, -1)
		checkInput(&oc, in, rows)
		if i == 0 {
			oc.Sample = map[string]any{"source": clip(in.src, 1500), "rows": rowNames(rows)}
		}
	}
	return oc
}

func rowNames(rows []row) []string {
	var out []string
	for _, r := range rows {
		out = append(out, r.Name)
	}
	return out
}

// serialise gives the existing comments of a seed file serials by rewriting nothing: seed comments
// are compared as a multiset of texts instead (see checkSeedComments).
func serialise(in input) input { return in }
