// Package render prints a generated token list under a layout plan: whitespace between tokens
// (space, tab, LF, CRLF, blank lines, or nothing where the lexer does not need a separator) and
// comment decorations at chosen gaps. It is written independently of ast.String() and of falco's
// formatter.
package render

import (
	"fmt"
	"math/rand"
	"strings"

	"verif/harness/gen"
)

type Comment struct {
	Style string `json:"style"` // "#", "//", "/*"
	Text  string `json:"text"`
	// SameLine keeps the comment on the line of the previous token (trailing position)
	SameLine bool `json:"same_line,omitempty"`
	// NoPad writes the text directly after the marker (`/*/ x */`, `//x`, `#x`)
	NoPad bool `json:"no_pad,omitempty"`
}

func (c Comment) String() string {
	if c.NoPad {
		switch c.Style {
		case "#", "//":
			return c.Style + c.Text
		case "/**":
			return "/**" + c.Text + "**/"
		}
		return "/*" + c.Text + "*/"
	}
	switch c.Style {
	case "#":
		return "# " + c.Text
	case "//":
		return "// " + c.Text
	case "/**":
		return "/** " + c.Text + " **/"
	}
	return "/* " + c.Text + " */"
}

// Plan is a layout: Mode for whitespace, Comments per gap index (gap i is before token i; gap
// len(toks) is after the last token).
type Plan struct {
	Mode     string            `json:"mode"` // "canonical" | "tight" | "random"
	Seed     int64             `json:"seed"`
	Comments map[int][]Comment `json:"comments,omitempty"`
}

func isWord(b byte) bool {
	return b >= 'a' && b <= 'z' || b >= 'A' && b <= 'Z' || b >= '0' && b <= '9' || b == '_' || b == '.' || b == ':' || b == '*' || b == '-'
}
func isOp(b byte) bool { return strings.IndexByte("=!<>&|+-*/%^~", b) >= 0 }

// NeedSpace reports whether two adjacent tokens must be separated for the lexer to see two tokens.
func NeedSpace(prev, next string) bool {
	if prev == "" || next == "" {
		return false
	}
	a, b := prev[len(prev)-1], next[0]
	switch {
	case isWord(a) && isWord(b):
		return true
	case isOp(a) && isOp(b):
		return true
	case a == '{' && (b == '"' || isWord(b)): // {" and {X" open a long string
		return true
	case isWord(a) && b == '"': // X"..." could close/open a delimiter form
		return false
	case a == '"' && isWord(b):
		return true // "...}X or "abc"def: keep apart for readability of the oracle
	case a == '"' && b == '}':
		return true // "} closes a long string only inside one, but keep apart
	}
	return false
}

// Pos is the 1-based (line, rune column) of a token in the rendered text.
type Pos struct{ Line, Col int }

// Render prints the tokens.
func Render(toks []gen.Tok, p Plan) string {
	s, _ := RenderPos(toks, p)
	return s
}

// RenderPos prints the tokens and reports where each one starts.
func RenderPos(toks []gen.Tok, p Plan) (string, []Pos) {
	r := rand.New(rand.NewSource(p.Seed))
	var sb posBuilder
	sb.line, sb.col = 1, 1
	pos := make([]Pos, 0, len(toks))
	prev := ""
	afterLineComment := false
	for i := 0; i <= len(toks); i++ {
		next := ""
		if i < len(toks) {
			next = toks[i].S
		}
		eolPreferred := i > 0 && toks[i-1].EOLAfter
		sep := ""
		switch p.Mode {
		case "tight":
			if NeedSpace(prev, next) {
				sep = " "
			}
		case "random":
			opts := []string{" ", " ", "  ", "\t", "\n", "\n", "\r\n", "\n\n", "\n\n\n", " \n  ", ""}
			sep = opts[r.Intn(len(opts))]
			if sep == "" && NeedSpace(prev, next) {
				sep = " "
			}
		default:
			sep = " "
			if eolPreferred {
				sep = "\n"
			}
			if i == 0 {
				sep = ""
			}
		}
		if i == len(toks) && p.Mode != "random" {
			sep = "\n"
		}
		cs := p.Comments[i]
		if len(cs) == 0 {
			if afterLineComment && !strings.Contains(sep, "\n") {
				sep = "\n" + sep
			}
			sb.WriteString(sep)
		} else {
			for k, c := range cs {
				lead := " "
				if !c.SameLine && (eolPreferred || p.Mode == "random" && r.Intn(2) == 0) {
					lead = "\n"
				}
				if p.Mode == "random" && lead == "\n" && r.Intn(4) == 0 {
					lead = "\n\n" // blank line before a comment
				}
				if i == 0 && k == 0 {
					lead = ""
				}
				if afterLineComment && !strings.Contains(lead, "\n") {
					lead = "\n"
				}
				sb.WriteString(lead)
				sb.WriteString(c.String())
				afterLineComment = c.Style != "/*" && c.Style != "/**"
			}
			tail := " "
			if afterLineComment || eolPreferred {
				tail = "\n"
			}
			if p.Mode == "random" && tail == "\n" && r.Intn(4) == 0 {
				tail = "\n\n" // blank line after a comment
			}
			if i == len(toks) {
				tail = "\n"
			}
			sb.WriteString(tail)
		}
		afterLineComment = false
		if i < len(toks) {
			pos = append(pos, Pos{sb.line, sb.col})
		}
		sb.WriteString(next)
		prev = next
	}
	return sb.String(), pos
}

// posBuilder is a strings.Builder that tracks the (line, rune column) of the write position.
type posBuilder struct {
	strings.Builder
	line, col int
}

func (b *posBuilder) WriteString(s string) (int, error) {
	for _, r := range s {
		if r == '\n' {
			b.line++
			b.col = 1
		} else {
			b.col++
		}
	}
	return b.Builder.WriteString(s)
}

// Canonical renders with single spaces and a newline after each statement.
func Canonical(toks []gen.Tok) string { return Render(toks, Plan{Mode: "canonical"}) }

// NewComment builds a comment with a unique serial in its text. The text can never be read as an
// annotation: it does not start (after trimming " */#") with "@", "FASTLY" or "falco-".
func NewComment(r *rand.Rand, serial int) Comment {
	style := []string{"#", "//", "/*", "#", "//", "/*", "/**"}[r.Intn(7)]
	words := []string{"note", "x y", "todo: z", "a=b", "50% off", "quote \"q\"", "brace { }", "semi;colon", "é", "dir C:\\"}
	return Comment{Style: style, Text: fmt.Sprintf("c%d %s", serial, words[r.Intn(len(words))])}
}

// hostile texts: ordinary comments (after trimming " */#" they start with neither "@", "FASTLY" nor
// "falco-ignore") that merely look like something meaningful: bare scope names, annotation
// keywords in the middle of a sentence, a trailing backslash.
var hostileTexts = []string{
	"Error", "deliver", "log", "recv", "fetch", "hit", "miss", "pass", "hash", "recv, deliver", "scope: recv", "scope: deliver,log",
	"see falco-ignore docs", "TODO falco-ignore-next-line?", "x falco-ignore-start", "y falco-ignore-end", "ignore", "ignore-next-line",
	"not @scope: recv", "mail a@recv", "plugin: foo", "skip", "the FASTLY recv macro", "no #FASTLY deliver here", "process", "suite: s", "tag: prod",
	"path C:\\", "ends with a backslash \\", "\\", "return(pass);", "set req.http.H0 = \"x\";", "}", "{", "\"", "'", "{\"", "\"}",
}

// NewPlainComment builds an ordinary comment without a serial prefix: half of them carry a hostile text.
func NewPlainComment(r *rand.Rand, serial int) Comment {
	c := NewComment(r, serial)
	if r.Intn(2) == 0 {
		c.Text = hostileTexts[r.Intn(len(hostileTexts))]
	}
	if r.Intn(4) == 0 {
		// no padding between marker and text; a few texts only make sense that way
		c.NoPad = true
		if r.Intn(2) == 0 {
			c.Text = []string{"", "/", "/ odd ", "*", "* star *", "/*", "//", "#", "x"}[r.Intn(9)]
		}
		if t := strings.TrimLeft(c.Text, " */#"); strings.HasPrefix(t, "@") || strings.HasPrefix(strings.ToUpper(t), "FASTLY") || strings.HasPrefix(t, "falco-") {
			c.NoPad = false
		}
		if c.Style == "/**" && strings.HasPrefix(c.Text, "/") {
			c.Style = "/*" // `/**/` is already a complete comment
		}
	}
	return c
}
