// Package astcmp turns falco ASTs into generic trees that ignore *ast.Meta (positions, comments,
// nesting, ids) and compares them, reporting the path of first divergence. Normalisations are
// opt-in: a check enables exactly the ones its property allows.
package astcmp

import (
	"fmt"
	"reflect"
	"sort"
	"strings"

	"github.com/ysugimoto/falco/v2/ast"
)

// N is a generic tree node.
type N struct {
	T      string // struct type name; "" for scalars and lists
	S      string // scalar rendering
	F      []F    // struct fields in declaration order
	L      []*N   // list elements
	IsList bool
	Nil    bool
}
type F struct {
	Name string
	V    *N
}

type Opts struct {
	// Ignore lists field names ("Explicit") or qualified names ("ReturnStatement.HasParenthesis") to drop.
	Ignore map[string]bool
	// NumLiteral adds the source literal (Meta.Token.Literal) of Integer and Float nodes as a field "Literal".
	NumLiteral bool
	// StringRaw adds the raw token literal of String nodes as a field "Raw".
	StringRaw bool
}

var metaType = reflect.TypeOf(&ast.Meta{})
var commentsType = reflect.TypeOf(ast.Comments{})

func Build(v any, o *Opts) *N {
	if o == nil {
		o = &Opts{}
	}
	return build(reflect.ValueOf(v), o)
}

func build(v reflect.Value, o *Opts) *N {
	if !v.IsValid() {
		return &N{Nil: true}
	}
	switch v.Kind() {
	case reflect.Interface, reflect.Ptr:
		if v.IsNil() {
			return &N{Nil: true}
		}
		return build(v.Elem(), o)
	case reflect.Struct:
		t := v.Type()
		n := &N{T: t.Name()}
		for i := 0; i < t.NumField(); i++ {
			f := t.Field(i)
			if f.Type == metaType || f.Type == commentsType || !f.IsExported() {
				continue
			}
			if o.Ignore[f.Name] || o.Ignore[t.Name()+"."+f.Name] {
				continue
			}
			n.F = append(n.F, F{f.Name, build(v.Field(i), o)})
		}
		if (o.NumLiteral && (t.Name() == "Integer" || t.Name() == "Float")) || (o.StringRaw && t.Name() == "String") {
			if m := v.FieldByName("Meta"); m.IsValid() && !m.IsNil() {
				lit := m.Elem().FieldByName("Token").FieldByName("Literal").String()
				name := "Literal"
				if t.Name() == "String" {
					name = "Raw"
				}
				n.F = append(n.F, F{name, &N{S: fmt.Sprintf("%q", lit)}})
			}
		}
		return n
	case reflect.Slice:
		n := &N{IsList: true}
		for i := 0; i < v.Len(); i++ {
			n.L = append(n.L, build(v.Index(i), o))
		}
		return n
	case reflect.String:
		return &N{S: fmt.Sprintf("%q", v.String())}
	case reflect.Float64, reflect.Float32:
		return &N{S: fmt.Sprintf("%b", v.Float())} // exact
	default:
		return &N{S: fmt.Sprintf("%v", v.Interface())}
	}
}

func (n *N) String() string {
	var sb strings.Builder
	n.write(&sb)
	return sb.String()
}
func (n *N) write(sb *strings.Builder) {
	switch {
	case n == nil || n.Nil:
		sb.WriteString("<nil>")
	case n.IsList:
		sb.WriteByte('[')
		for i, e := range n.L {
			if i > 0 {
				sb.WriteByte(';')
			}
			e.write(sb)
		}
		sb.WriteByte(']')
	case n.T != "":
		sb.WriteString(n.T)
		sb.WriteByte('{')
		for i, f := range n.F {
			if i > 0 {
				sb.WriteByte(',')
			}
			sb.WriteString(f.Name)
			sb.WriteByte(':')
			f.V.write(sb)
		}
		sb.WriteByte('}')
	default:
		sb.WriteString(n.S)
	}
}

// Get returns the field of a struct node (nil if absent).
func (n *N) Get(name string) *N {
	for _, f := range n.F {
		if f.Name == name {
			return f.V
		}
	}
	return nil
}
func (n *N) Set(name string, v *N) {
	for i, f := range n.F {
		if f.Name == name {
			n.F[i].V = v
			return
		}
	}
	n.F = append(n.F, F{name, v})
}
func (n *N) Del(name string) {
	for i, f := range n.F {
		if f.Name == name {
			n.F = append(n.F[:i:i], n.F[i+1:]...)
			return
		}
	}
}

// Walk visits every node (pre-order); f may mutate the node in place.
func (n *N) Walk(f func(*N)) {
	if n == nil {
		return
	}
	f(n)
	for _, fl := range n.F {
		fl.V.Walk(f)
	}
	for _, e := range n.L {
		e.Walk(f)
	}
}

// SortList sorts a list node by the string rendering of its elements.
func (n *N) SortList() {
	if n == nil || !n.IsList {
		return
	}
	sort.SliceStable(n.L, func(i, j int) bool { return n.L[i].String() < n.L[j].String() })
}

// Div is a first divergence.
type Div struct {
	Path string // with indices
	A, B string
}

// Key returns the path with list indices stripped.
func (d *Div) Key() string {
	var sb strings.Builder
	skip := false
	for _, r := range d.Path {
		if r == '[' {
			skip = true
			continue
		}
		if r == ']' {
			skip = false
			continue
		}
		if !skip {
			sb.WriteRune(r)
		}
	}
	return sb.String()
}

func short(n *N) string {
	s := n.String()
	if len(s) > 200 {
		s = s[:200] + "…"
	}
	return s
}

// Compare returns nil if equal, else the first divergence.
func Compare(a, b *N) *Div { return cmp(a, b, "") }

func cmp(a, b *N, path string) *Div {
	an, bn := a == nil || a.Nil, b == nil || b.Nil
	if an || bn {
		if an && bn {
			return nil
		}
		return &Div{path, short(a), short(b)}
	}
	if a.IsList != b.IsList || a.T != b.T {
		p := path
		if a.T != "" || b.T != "" {
			p += "<" + a.T + "|" + b.T + ">"
		}
		return &Div{p, short(a), short(b)}
	}
	switch {
	case a.IsList:
		for i := 0; i < len(a.L) && i < len(b.L); i++ {
			if d := cmp(a.L[i], b.L[i], fmt.Sprintf("%s[%d]", path, i)); d != nil {
				return d
			}
		}
		if len(a.L) != len(b.L) {
			return &Div{path + ".len", fmt.Sprint(len(a.L)), fmt.Sprint(len(b.L))}
		}
		return nil
	case a.T != "":
		p := path
		if p != "" {
			p += "."
		}
		p += a.T
		if len(a.F) != len(b.F) {
			return &Div{p + ".fields", short(a), short(b)}
		}
		for i := range a.F {
			if a.F[i].Name != b.F[i].Name {
				return &Div{p + ".fields", short(a), short(b)}
			}
			if d := cmp(a.F[i].V, b.F[i].V, p+"."+a.F[i].Name); d != nil {
				return d
			}
		}
		return nil
	default:
		if a.S != b.S {
			return &Div{path, a.S, b.S}
		}
		return nil
	}
}
