// Package lintutil runs falco's linter on source text and returns its diagnostics as plain data.
package lintutil

import (
	"fmt"
	"regexp"
	"sort"
	"strings"

	"github.com/ysugimoto/falco/v2/ast"
	"github.com/ysugimoto/falco/v2/config"
	"github.com/ysugimoto/falco/v2/lexer"
	"github.com/ysugimoto/falco/v2/linter"
	lcontext "github.com/ysugimoto/falco/v2/linter/context"
	"github.com/ysugimoto/falco/v2/parser"
	"github.com/ysugimoto/falco/v2/resolver"
	"github.com/ysugimoto/falco/v2/snippet"
)

type Diag struct {
	Rule     string `json:"rule"`
	Severity string `json:"sev"`
	File     string `json:"file,omitempty"`
	Line     int    `json:"line"`
	Pos      int    `json:"pos"`
	Msg      string `json:"msg"`
}

func (d Diag) String() string {
	return fmt.Sprintf("%s|%s|%s|%d|%d|%s", d.Rule, d.Severity, d.File, d.Line, d.Pos, d.Msg)
}

var digits = regexp.MustCompile(`[0-9]+`)

// NoPos renders the diagnostic without its location (digits in the message masked: some
// messages quote source positions).
func (d Diag) NoPos() string {
	return fmt.Sprintf("%s|%s|%s", d.Rule, d.Severity, digits.ReplaceAllString(d.Msg, "N"))
}

// MapResolver serves modules from memory and counts loads (termination is decided logically:
// more than Budget loads panics with ErrIncludeBudget).
type MapResolver struct {
	Main    string
	Modules map[string]string
	Loads   int
	Budget  int
}

const ErrIncludeBudget = "ErrIncludeBudgetExceeded"

func (m *MapResolver) MainVCL() (*resolver.VCL, error) {
	return &resolver.VCL{Name: "main.vcl", Data: m.Main}, nil
}
func (m *MapResolver) Resolve(stmt *ast.IncludeStatement) (*resolver.VCL, error) {
	m.Loads++
	if m.Budget > 0 && m.Loads > m.Budget {
		panic(ErrIncludeBudget)
	}
	name := stmt.Module.Value
	if src, ok := m.Modules[name]; ok {
		return &resolver.VCL{Name: name + ".vcl", Data: src}, nil
	}
	return nil, fmt.Errorf("Failed to resolve include file: %s.vcl", name)
}
func (m *MapResolver) Name() string           { return "map" }
func (m *MapResolver) IncludePaths() []string { return []string{} }

// Result of one lint run.
type Result struct {
	Diags    []Diag
	ParseErr error
	Fatal    string
}

// Lint parses and lints src. Panics are NOT recovered here.
func Lint(src string, res resolver.Resolver) *Result {
	return LintWith(src, res, nil)
}

// LintWith lints src with Fastly managed snippets (scoped snippets for the #FASTLY macros and
// "snippet::name" includes) in the linter context.
func LintWith(src string, res resolver.Resolver, snips *snippet.Snippets) *Result {
	r := &Result{}
	v, err := parser.New(lexer.NewFromString(src, lexer.WithFile("main.vcl"))).ParseVCL()
	if err != nil {
		r.ParseErr = err
		return r
	}
	if res == nil {
		res = &MapResolver{Main: src}
	}
	l := linter.New(&config.LinterConfig{})
	opts := []lcontext.Option{lcontext.WithResolver(res)}
	if snips != nil {
		opts = append(opts, lcontext.WithSnippets(snips))
	}
	l.Lint(v, lcontext.New(opts...))
	if l.FatalError != nil {
		r.Fatal = fmt.Sprint(l.FatalError.Error)
	}
	for _, e := range l.Errors {
		if e == nil {
			r.Diags = append(r.Diags, Diag{Rule: "<nil entry>"})
			continue
		}
		r.Diags = append(r.Diags, Diag{Rule: string(e.Rule), Severity: string(e.Severity), File: e.Token.File, Line: e.Token.Line, Pos: e.Token.Position, Msg: e.Message})
	}
	return r
}

// Multiset renders a sorted multiset of strings.
func Multiset(items []string) string {
	s := append([]string{}, items...)
	sort.Strings(s)
	return strings.Join(s, "\n")
}

// DiffMultiset returns one element that is in a but not in b (with multiplicity), or "".
func DiffMultiset(a, b []string) string {
	cnt := map[string]int{}
	for _, x := range b {
		cnt[x]++
	}
	for _, x := range a {
		if cnt[x] == 0 {
			return x
		}
		cnt[x]--
	}
	return ""
}
