// Package tsim executes typed programs (gen.TProgram) in falco's interpreter under the debugger
// snapshot monitor and hosts the checkers that work on those executions: the metamorphic
// comment/layout pair monitor (C09, simulator half), the reference-trace differ (C07) and the
// frame-rule checker (C13).
package tsim

import (
	"fmt"
	"math/rand"
	"regexp"
	"sort"
	"strings"

	"verif/harness/fw"
	"verif/harness/gen"
	"verif/harness/render"
	"verif/harness/sim"
)

// PoolNames lists every name the snapshot monitor reads.
func PoolNames(p *gen.TProgram) []string {
	var names []string
	for _, l := range p.Locals {
		names = append(names, l.Name)
	}
	names = append(names, "req.http.H0", "req.http.H1", "req.http.H2", "re.group.0", "re.group.1", "re.group.2")
	return names
}

// Exec is one observed execution.
type Exec struct {
	Steps  []Step
	Logs   []string
	Err    string
	Status string // "", "init", "parse", "panic:<key>"
	Stack  string
	State  string
}

// Step is the state observed BEFORE a statement of any frame.
type Step struct {
	Kind string
	Vals map[string]sim.Val
}

func Run(mainSrc, subSrc string, names []string) *Exec {
	ex := &Exec{}
	var res *sim.Result
	pn, msg, st := fw.Guard(func() { res = sim.RunSub(mainSrc, subSrc, "RECV", names, sim.Request{}) })
	if pn {
		ex.Status, ex.Stack = "panic:"+fw.PanicKey(st)+" "+msg, st
		return ex
	}
	switch {
	case res.InitErr != nil:
		ex.Status = "init"
		ex.Err = res.InitErr.Error()
		return ex
	case res.ParseErr != nil:
		ex.Status = "parse"
		ex.Err = res.ParseErr.Error()
		return ex
	}
	if res.Err != nil {
		ex.Err = firstLine(res.Err.Error())
	}
	for _, s := range res.Snaps {
		ex.Steps = append(ex.Steps, Step{Kind: strings.TrimPrefix(s.Kind, "*ast."), Vals: s.Vals})
	}
	ex.Logs, ex.State = res.Logs, res.State
	return ex
}

func firstLine(s string) string {
	if i := strings.IndexByte(s, '\n'); i >= 0 {
		return s[:i]
	}
	return s
}

var posRe = regexp.MustCompile(`(?i)(line|position|pos|column|col)(:? *)[0-9]+`)

// maskPos removes line/position numbers from a reported error (C09 allows them to move).
func maskPos(s string) string { return posRe.ReplaceAllString(s, "$1${2}N") }

func clip(s string, n int) string {
	if len(s) > n {
		return s[:n] + "…"
	}
	return s
}

// diffExec compares two executions; it returns "" or a description and the differing field class.
func diffExec(a, b *Exec) (string, string) {
	if maskPos(a.Err) != maskPos(b.Err) {
		return fmt.Sprintf("reported error differs: %q vs %q", a.Err, b.Err), "error"
	}
	if a.State != b.State {
		return fmt.Sprintf("state returned by the subroutine differs: %q vs %q", a.State, b.State), "state"
	}
	if strings.Join(a.Logs, "\n") != strings.Join(b.Logs, "\n") {
		for i := 0; i < len(a.Logs) || i < len(b.Logs); i++ {
			x, y := "<none>", "<none>"
			if i < len(a.Logs) {
				x = a.Logs[i]
			}
			if i < len(b.Logs) {
				y = b.Logs[i]
			}
			if x != y {
				return fmt.Sprintf("log line %d differs: %q vs %q", i, x, y), "logs"
			}
		}
	}
	if len(a.Steps) != len(b.Steps) {
		return fmt.Sprintf("%d statements executed vs %d", len(a.Steps), len(b.Steps)), "states"
	}
	for i := range a.Steps {
		if a.Steps[i].Kind != b.Steps[i].Kind {
			return fmt.Sprintf("statement %d is a %s vs a %s", i, a.Steps[i].Kind, b.Steps[i].Kind), "states"
		}
		var names []string
		for n := range a.Steps[i].Vals {
			names = append(names, n)
		}
		sort.Strings(names)
		for _, n := range names {
			if a.Steps[i].Vals[n] != b.Steps[i].Vals[n] {
				return fmt.Sprintf("before statement %d (%s) %s reads %s vs %s", i, a.Steps[i].Kind, n, a.Steps[i].Vals[n], b.Steps[i].Vals[n]), "values"
			}
		}
	}
	return "", ""
}

func slotAt(toks []gen.Tok, gap int) string {
	if gap < len(toks) {
		return toks[gap].Slot
	}
	return "tail"
}

func styleName(c render.Comment) string {
	switch c.Style {
	case "#":
		return "sharp"
	case "//":
		return "slash"
	}
	return "block"
}

// RunC09 is the simulator half of C09: P vs D(P) must execute identically.
func RunC09(oc *fw.Outcome, seed int64, n int, single bool, multi int) {
	r := rand.New(rand.NewSource(seed))
	for i := 0; i < n; i++ {
		size := 6 + r.Intn(12)
		if single {
			size = 3 + r.Intn(5)
		}
		p := gen.TypedProgram(r, size)
		names := PoolNames(p)
		main0, sub0 := render.Canonical(p.MainToks), render.Canonical(p.SubToks)
		fw.JournalS(main0 + "\n" + sub0)
		oc.Evals++
		base := Run(main0, sub0, names)
		if base.Status != "" {
			if strings.HasPrefix(base.Status, "panic:") {
				oc.Tag("base-panics") // C08's business
			} else {
				oc.Inconc = append(oc.Inconc, "typed program does not run: "+base.Status+" "+clip(base.Err, 120)+"\n"+clip(sub0, 400))
			}
			continue
		}
		if i == 0 {
			oc.Sample = map[string]any{"main": clip(main0, 600), "sub": clip(sub0, 1200), "statements_executed": len(base.Steps), "logs": base.Logs}
		}
		check := func(plMain, plSub render.Plan, what string) bool {
			m1, s1 := render.Render(p.MainToks, plMain), render.Render(p.SubToks, plSub)
			fw.JournalS(m1 + "\n" + s1)
			oc.Evals++
			cur := Run(m1, s1, names)
			if cur.Status == "parse" || cur.Status == "init" {
				doc := true
				for gap := range plSub.Comments {
					if gap < len(p.SubToks) && !p.SubToks[gap].Doc {
						doc = false
					}
				}
				for gap := range plMain.Comments {
					if gap < len(p.MainToks) && !p.MainToks[gap].Doc {
						doc = false
					}
				}
				if doc {
					oc.Violate(what+"/sim:noparse", "the program no longer loads when only comments at documented placeholders / whitespace are inserted: "+clip(cur.Err, 200),
						map[string]any{"plain_sub": clip(sub0, 2500), "decorated_main": clip(m1, 1500), "decorated_sub": clip(s1, 2500), "plan_sub": plSub, "plan_main": plMain})
					return false
				}
				oc.Tag("decorated-variant-does-not-parse")
				return true
			}
			if cur.Status != "" {
				oc.Tag("variant-panics")
				return true
			}
			if len(base.Steps) >= 3 {
				oc.NonTrivialS(m1 + s1)
			}
			if d, class := diffExec(base, cur); d != "" {
				oc.Violate(what+"/sim:"+class, "inserting only comments/whitespace changes the execution: "+d,
					map[string]any{"plain_main": clip(main0, 1500), "plain_sub": clip(sub0, 2500), "decorated_main": clip(m1, 1500), "decorated_sub": clip(s1, 2500), "plan_sub": plSub, "plan_main": plMain})
				return false
			}
			return true
		}
		canon := render.Plan{Mode: "canonical"}
		check(render.Plan{Mode: "tight"}, render.Plan{Mode: "tight"}, "whitespace:tight")
		check(render.Plan{Mode: "random", Seed: r.Int63()}, render.Plan{Mode: "random", Seed: r.Int63()}, "whitespace:random")
		if single {
			serial := 0
			for gap := 0; gap <= len(p.SubToks); gap++ {
				for _, style := range []string{"#", "//", "/*"} {
					serial++
					c := render.NewPlainComment(r, serial)
					c.Style = style
					check(canon, render.Plan{Mode: "canonical", Comments: map[int][]render.Comment{gap: {c}}}, slotAt(p.SubToks, gap)+"/"+styleName(c))
					oc.Tag("slot:" + slotAt(p.SubToks, gap))
				}
			}
			for gap := 0; gap <= len(p.MainToks); gap += 1 + r.Intn(3) {
				serial++
				c := render.NewPlainComment(r, serial)
				check(render.Plan{Mode: "canonical", Comments: map[int][]render.Comment{gap: {c}}}, canon, slotAt(p.MainToks, gap)+"/"+styleName(c))
			}
			continue
		}
		for k := 0; k < multi; k++ {
			pl := render.Plan{Mode: []string{"canonical", "random"}[r.Intn(2)], Seed: r.Int63(), Comments: map[int][]render.Comment{}}
			for m := 1 + r.Intn(8); m > 0; m-- {
				gap := r.Intn(len(p.SubToks) + 1)
				pl.Comments[gap] = append(pl.Comments[gap], render.NewPlainComment(r, m))
			}
			plm := render.Plan{Mode: "canonical", Comments: map[int][]render.Comment{}}
			if r.Intn(2) == 0 && len(p.MainToks) > 0 {
				gap := r.Intn(len(p.MainToks) + 1)
				plm.Comments[gap] = append(plm.Comments[gap], render.NewPlainComment(r, 99))
			}
			// localise: on failure re-test each decorated gap alone (the key names the placeholder)
			m1, s1 := render.Render(p.MainToks, plm), render.Render(p.SubToks, pl)
			oc.Evals++
			cur := Run(m1, s1, names)
			if cur.Status != "" {
				oc.Tag("decorated-variant-does-not-parse")
				continue
			}
			if d, _ := diffExec(base, cur); d == "" {
				if len(base.Steps) >= 3 {
					oc.NonTrivialS(m1 + s1)
				}
				continue
			}
			found := false
			for gap, cs := range pl.Comments {
				one := render.Plan{Mode: "canonical", Comments: map[int][]render.Comment{gap: cs[:1]}}
				if !check(canon, one, slotAt(p.SubToks, gap)+"/"+styleName(cs[0])) {
					found = true
					break
				}
			}
			if !found {
				check(plm, pl, "multi")
			}
		}
	}
}
