// Package sim drives falco's interpreter the way `falco test` does (main VCL through a static
// resolver, the driven subroutine parsed separately, TestProcessInit + ProcessTestSubroutine) under
// the debugger snapshot monitor: an interpreter.Debugger whose Run() is called before every
// statement and reads a pool of variable names through Interpreter.ProcessExpression — the same
// path a VCL read takes.
package sim

import (
	"fmt"
	ghttp "net/http"
	"strings"

	"github.com/ysugimoto/falco/v2/ast"
	"github.com/ysugimoto/falco/v2/interpreter"
	"github.com/ysugimoto/falco/v2/interpreter/context"
	ihttp "github.com/ysugimoto/falco/v2/interpreter/http"
	"github.com/ysugimoto/falco/v2/interpreter/value"
	"github.com/ysugimoto/falco/v2/lexer"
	"github.com/ysugimoto/falco/v2/parser"
	"github.com/ysugimoto/falco/v2/resolver"
)

// Val is an immediately rendered copy of a variable value (never a retained pointer).
type Val struct {
	Type   string `json:"t,omitempty"`
	Str    string `json:"s"`
	NotSet bool   `json:"ns,omitempty"`
	Err    string `json:"e,omitempty"`
}

func (v Val) String() string {
	if v.Err != "" {
		return "<err>"
	}
	if v.NotSet {
		return v.Type + ":<notset>"
	}
	return fmt.Sprintf("%s:%q", v.Type, v.Str)
}

// Snap is the state observed before a statement.
type Snap struct {
	Seq  int
	Line int
	Pos  int
	Kind string // node type
	File string
	Vals map[string]Val
}

const ErrStepBudget = "ErrStepBudgetExceeded"

// Monitor is the debugger snapshot monitor.
type Monitor struct {
	I       *interpreter.Interpreter
	Names   []string
	Snaps   []Snap
	Logs    []string
	Steps   int
	Budget  int  // 0 = 200000
	NoSnaps bool // only count steps
	OnStep  func(n ast.Node)
}

func Render(v value.Value) Val {
	out := Val{Type: string(v.Type()), Str: v.String()}
	switch t := v.(type) {
	case *value.String:
		out.NotSet = t.IsNotSet
	case *value.IP:
		out.NotSet = t.IsNotSet
	}
	return out
}

func (m *Monitor) Read(name string) Val {
	v, err := m.I.ProcessExpression(&ast.Ident{Value: name, Meta: &ast.Meta{}})
	if err != nil {
		return Val{Err: firstLine(err.Error())}
	}
	if v == nil {
		return Val{Err: "nil value"}
	}
	return Render(v)
}

func firstLine(s string) string {
	if i := strings.IndexByte(s, '\n'); i >= 0 {
		s = s[:i]
	}
	if len(s) > 160 {
		s = s[:160]
	}
	return s
}

func (m *Monitor) Run(n ast.Node) interpreter.DebugState {
	m.Steps++
	b := m.Budget
	if b == 0 {
		b = 200000
	}
	if m.Steps > b {
		panic(ErrStepBudget)
	}
	if m.OnStep != nil {
		m.OnStep(n)
	}
	if m.NoSnaps {
		return interpreter.DebugStepIn
	}
	s := Snap{Seq: m.Steps, Kind: fmt.Sprintf("%T", n), Vals: make(map[string]Val, len(m.Names))}
	if meta := n.GetMeta(); meta != nil {
		s.Line, s.Pos, s.File = meta.Token.Line, meta.Token.Position, meta.Token.File
	}
	for _, name := range m.Names {
		s.Vals[name] = m.Read(name)
	}
	m.Snaps = append(m.Snaps, s)
	return interpreter.DebugStepIn
}
func (m *Monitor) Message(string) {}
func (m *Monitor) Log(l *ast.LogStatement, v string) {
	m.Logs = append(m.Logs, v)
}

// Request describes the client request used to initialise the interpreter.
type Request struct {
	Method  string
	URL     string
	Headers map[string]string
	Remote  string
}

func (r Request) build() (*ihttp.Request, error) {
	method, url := r.Method, r.URL
	if method == "" {
		method = ghttp.MethodGet
	}
	if url == "" {
		url = "http://localhost/"
	}
	req, err := ihttp.NewRequest(method, url, ghttp.NoBody)
	if err != nil {
		return nil, err
	}
	for k, v := range r.Headers {
		req.Header.Set(k, v)
	}
	req.RemoteAddr = r.Remote
	if req.RemoteAddr == "" {
		req.RemoteAddr = "192.0.2.1:1111"
	}
	return req, nil
}

var Scopes = map[string]context.Scope{
	"RECV": context.RecvScope, "HASH": context.HashScope, "HIT": context.HitScope, "MISS": context.MissScope, "PASS": context.PassScope,
	"FETCH": context.FetchScope, "ERROR": context.ErrorScope, "DELIVER": context.DeliverScope, "LOG": context.LogScope,
}

// Result of RunSub.
type Result struct {
	Snaps    []Snap
	Logs     []string
	Err      error // runtime error returned by the interpreter
	InitErr  error // main VCL failed to initialise
	ParseErr error // driven subroutine failed to parse
	Steps    int
	Mon      *Monitor
	State    string // the state returned by the driven subroutine
}

// RunSub runs the first subroutine declared in subVCL in the given scope against mainVCL.
// Panics are NOT recovered here (callers decide).
func RunSub(mainVCL, subVCL, scope string, names []string, req Request, opts ...func(*Monitor)) *Result {
	res := &Result{}
	i := interpreter.New(context.WithResolver(resolver.NewStaticResolver("main.vcl", mainVCL)))
	m := &Monitor{I: i, Names: names}
	for _, o := range opts {
		o(m)
	}
	res.Mon = m
	i.Debugger = m
	r, err := req.build()
	if err != nil {
		res.InitErr = err
		return res
	}
	if err := i.TestProcessInit(r); err != nil {
		res.InitErr = err
		return res
	}
	v, err := parser.New(lexer.NewFromString(subVCL)).ParseVCL()
	if err != nil {
		res.ParseErr = err
		return res
	}
	var sub *ast.SubroutineDeclaration
	for _, st := range v.Statements {
		if s, ok := st.(*ast.SubroutineDeclaration); ok {
			sub = s
			break
		}
	}
	if sub == nil {
		res.ParseErr = fmt.Errorf("no subroutine in driven VCL")
		return res
	}
	sc, ok := Scopes[scope]
	if !ok {
		sc = context.RecvScope
	}
	// what Interpreter.ProcessTestSubroutine does, keeping the returned state
	i.SetScope(sc)
	st, err := i.ProcessSubroutine(sub, interpreter.DebugPass, nil)
	res.Err, res.State = err, string(st)
	res.Snaps, res.Logs, res.Steps = m.Snaps, m.Logs, m.Steps
	return res
}
