# statement-only snippet
set req.http.A = "b";
if (req.http.A) {
  unset req.http.A;
} else {
  log "no A";
}
call helper;
return(lookup);
