// `add` and `set` with every assignment operator the parser accepts, `remove`/`unset` side by side
sub vcl_deliver {
  #FASTLY DELIVER
  add resp.http.Vary = "Accept";
  add resp.http.Vary += "Accept-Encoding";
  add resp.http.Set-Cookie += "a=b" "; path=/";
  add resp.http.X-N -= "1";
  add resp.http.X-N *= "2";
  add resp.http.X-N /= "2";
  add resp.http.X-N %= "2";
  add resp.http.X-N |= "2";
  add resp.http.X-N &= "2";
  add resp.http.X-N ^= "2";
  add resp.http.X-N <<= "2";
  add resp.http.X-N >>= "2";
  add resp.http.X-N rol= "2";
  add resp.http.X-N ror= "2";
  add resp.http.X-B &&= "1";
  add resp.http.X-B ||= "1";
  set resp.http.X-S += "tail";
  set resp.http.X-B ||= "1";
  remove resp.http.X-Old;
  unset resp.http.X-Older;
}
