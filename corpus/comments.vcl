/* c1 */ sub /* c2 */ vcl_fetch /* c3 */ { // c4
  # c5
  set /* c6 */ beresp.ttl /* c7 */ = /* c8 */ 10s /* c9 */; // c10
  /* c11 */
  if /* c12 */ ( /* c13 */ beresp.status /* c14 */ == /* c15 */ 200 /* c16 */ ) /* c17 */ { # c18
    return /* c19 */ ( /* c20 */ deliver /* c21 */ ) /* c22 */; // c23
  }
  // c24
  else /* c25 */ {
    log /* c26 */ "x" /* c27 */ "y" /* c28 */; // c29
  }
  // falco-ignore-next-line
  set beresp.http.X = std.tolower( /* c30 */ "A" /* c31 */ , /* c32 */ "B" /* c33 */ ) /* c34 */;
  # c35
} // c36
# c37
