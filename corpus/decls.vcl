// leading comment
acl internal {
  "192.168.0.1";
  "10.0.0.0"/8;
  ! "10.1.2.0"/24;
  "2001:db8::"/32;
  !"2001:db8:ffff::1";
}

backend origin_0 {
  .host = "example.com";
  .port = "443";
  .ssl = true;
  .connect_timeout = 1s;
  .first_byte_timeout = 15.5s;
  .between_bytes_timeout = 10000ms;
  .max_connections = 200;
  .probe = {
    .request = "GET / HTTP/1.1" "Host: example.com" "Connection: close";
    .dummy = true;
    .threshold = 1;
    .window = 2;
    .timeout = 5s;
    .initial = 1;
    .expected_response = 200;
    .interval = 10s;
  }
}

backend origin_1 { .host = "127.0.0.1"; .port = "8080"; }

director my_dir random {
  .quorum = 50%;
  .retries = 3;
  { .backend = origin_0; .weight = 2; }
  { .backend = origin_1; .weight = 1; }
}

director fb fallback { { .backend = origin_1; } { .backend = origin_0; } }

table redirects {
  "/old": "/new",
  "/a%20b": "c%20d",
  "empty": "",
}
table flags BOOL { "a": true, "b": false }
table nums INTEGER { "one": 1, "big": 0x7FFFFFFFFFFFFFFF }
table routes BACKEND { "x": origin_0, "y": origin_1, }
table empty_t STRING {}

penaltybox pb1 {}
ratecounter rc1 { }

import foo;
include "feature_mod";

sub helper {
  set req.http.Helper = "1";
}

sub with_params(STRING var.s, INTEGER var.n) STRING {
  declare local var.out STRING;
  set var.out = var.s var.n;
  return var.out;
}

sub is_ok BOOL {
  return req.http.A == "b" && (req.http.C ~ "^d" || !req.http.E);
}

sub vcl_recv {
  #FASTLY RECV
  declare local var.i INTEGER;
  declare local var.f FLOAT;
  declare local var.s STRING;
  declare local var.b BOOL;
  declare local var.t RTIME;
  declare local var.ip IP;
  declare local var.tm TIME;
  set var.i = 10;
  set var.i += 0x1f;
  set var.i -= 1;
  set var.i *= 2;
  set var.i /= 3;
  set var.i %= 7;
  set var.i |= 1;
  set var.i &= 0xff;
  set var.i ^= 5;
  set var.i <<= 2;
  set var.i >>= 1;
  set var.i rol= 3;
  set var.i ror= 3;
  set var.b = true;
  set var.b &&= false;
  set var.b ||= (var.i > 3);
  set var.f = 1.5e3;
  set var.f = 0x1.8p3;
  set var.f = -0.5;
  set var.i = -9223372036854775808;
  set var.t = 100ms;
  set var.t = 5m;
  set var.t = 1.5s;
  set var.ip = "192.0.2.1";
  set var.s = "abc" "def" + req.http.Host + {"long "string" "} {X"delim"X};
  set var.s = "%u00e9 %41 %u{1F600}";
  set var.s = if(var.b, "yes", "no");
  set var.s = regsub(req.url, "^/(.*)$", "/\1") + std.itoa(var.i);
  set req.http.Cookie:session = "x";
  set req.http.X-Long-Name = req.http.Cookie:session;
  add resp.http.Set-Cookie = "a=b";
  unset req.http.Foo;
  remove req.http.Bar;
  unset req.http.X-*;
  call helper;
  call helper();
  call with_params("a", 1);
  set var.s = with_params("b", 2);
  if (var.i == 1) {
    esi;
  } else if (var.i != 2 && var.s ~ "x") {
    log "a" var.s;
  } elseif (var.i < 3 || var.i > 4) {
    log {"b"};
  } elsif (var.i <= 5) {
    log "c";
  } else {
    log "d";
  }
  if (!var.b) { restart; }
  if (client.ip ~ internal) { return(pass); }
  if (req.http.A !~ "b") { return (lookup); }
  switch (req.http.host) {
  case "1":
    set req.http.X = "1";
    break;
  case ~ "^2":
    fallthrough;
  case "3": {
    set req.http.X = "3";
    break;
  }
  default:
    break;
  }
  {
    log "nested block";
    {
      log "deeper";
    }
  }
  goto done;
  std.collect(req.http.Cookie);
  h2.push("/x");
  done:
  error 601;
  error 602 "msg";
  error var.i "x" + "y";
  error;
  synthetic "body" var.s;
  synthetic.base64 "Ym9keQ==";
  synthetic {"<html>"} + {"</html>"};
  return(lookup);
}

sub vcl_deliver {
  set resp.http.X = (req.http.A) (req.http.B);
  set resp.http.Y = ("a" + ("b" "c")) "d";
  set resp.http.Z = -1 + "";
  set resp.http.Pct = 50%;
  return;
}
