include "mod%2520a";
include "plain_module";

director d_hash hash {
  .quorum = 50%;
  .key = "a%2520b";
  .retries = 3;
  { .backend = b1; .weight = 1; .id = "x%2520y"; }
  { .backend = b2; .weight = 2; }
}

backend b1 {
  .host = "a%2520b.example.com";
  .port = "443";
}

backend b2 {
  .host = "b.example.com";
}

table escapes {
  "k%2520": "v%2520",
  "q%22": "%u00e9%u{1F600}",
}

sub vcl_recv {
  #FASTLY RECV
  set req.http.A = 50%;
  set req.http.B = "x%2520y" "%25" {"%2520 stays"};
  if (req.http.C == "c%2520") {
    error 600 "m%2520";
  }
  log "l%2520";
  synthetic "s%2520";
  return (lookup);
}
