sub vcl_recv {
  #FASTLY RECV
  if (req.http.A) {
    esi;
  } // end of A
  else if (req.http.B) {
    esi;
  } # end of B
  elseif (req.http.C) {
    esi;
  } // end of C
  elsif (req.http.D) {
    esi;
  } # end of D
  else {
    esi;
  } // end of chain

  if (req.http.E) {
    esi;
  } /* block after E */ else if (req.http.F) {
    esi;
  } /* after else-if F */ else {
    esi;
  }

  if (req.http.G) {
    esi;
  } // end of G
  else {
    esi;
  }

  if (req.http.H) {
    esi;
  }
  // own line before else if
  else if (req.http.I) {
    esi;
  }
  /* own line block before else */
  else {
    esi;
  }
}

sub vcl_fetch {
  #FASTLY FETCH
  remove /* before ident */ beresp.http.Cookie /* after ident */; // trailing
  unset /* before ident */ beresp.http.Set-Cookie /* after ident */; // trailing
  if (beresp.status == 500) {
    if (beresp.http.X) {
      esi;
    } // inner end
    else if (beresp.http.Y) {
      esi;
    }
  } // outer end
  else if (beresp.status == 501) {
    esi;
  }
}

acl internal {
  "2001:db8::"/32;
  "192.0.2.1"/32;
  "10.0.0.0"/8;
  ! "10.1.0.0"/16;
  "203.0.113.7";
}

table sectioned {
  "a": "1",

  "b": "2",
  "c": "3",

  # a comment in front of the last group
  "d": "4",
}
