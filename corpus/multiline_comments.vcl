/*
 * File header
 *   with an indented line
 */
sub vcl_recv {
  #FASTLY RECV
  /*
   * Normalize the host header
   *   - lower case
   */
  set req.http.Host = std.tolower(req.http.Host);

  if (req.http.A) {
    /* first line
       second line, aligned under the first
         third line, deeper */
    set req.http.B = "b"; /* trailing
                             over two lines */
    if (req.http.C) {
      /*
      no stars here
      	a tab in front
      */
      esi;
    }
  }
  return (lookup);
}

backend b1 {
  /*
   * the origin
   */
  .host = "example.com";
  .probe = {
    /* probe
       settings */
    .request = "GET / HTTP/1.1";
  }
}

table t {
  /*
   * entries
   */
  "a": "1",
}
